/* Contracts for the real src/low_level/extract.c (C17). EXTRACT_C is the scratch copy of the file. */
#include EXTRACT_C

#ifdef NATIVE_REPLAY
#define __CPROVER_assert(c, m) ((void)0)
static int nondet_int(void) { return 0; }
#else
int nondet_int(void);
#endif

static uint8_t spec_cause(int code, int signo) {
#ifdef SI_KERNEL
    if (code == SI_KERNEL) return 1;
#endif
    if (code == SI_USER) return 2;
#ifdef SI_TKILL
    if (code == SI_TKILL) return 3;
#endif
    if (code == SI_QUEUE) return 4;
#ifdef SI_MESGQ
    if (code == SI_MESGQ) return 5;
#endif
    if (signo == SIGCHLD) {
        if (code == CLD_EXITED) return 6;
        if (code == CLD_KILLED) return 7;
        if (code == CLD_DUMPED) return 8;
        if (code == CLD_TRAPPED) return 9;
        if (code == CLD_STOPPED) return 10;
        if (code == CLD_CONTINUED) return 11;
    }
    return 0;
}

void harness_cause(void) {
    siginfo_t info;
    int cx_code = nondet_int(), cx_signo = nondet_int();
    info.si_code = cx_code;
    info.si_signo = cx_signo;
    uint8_t r = sighook_signal_cause(&info);
    __CPROVER_assert(r <= 11, "C17.C-RANGE: the translated cause is a valid discriminant of the Rust enum (0..=11)");
    __CPROVER_assert(r == spec_cause(cx_code, cx_signo), "C17.C-TABLE: every (si_code, si_signo) maps to the cause class the kernel documents");
    if (cx_signo != SIGCHLD)
        __CPROVER_assert(r <= 5, "C17.C-CHLD-ONLY: child causes are reported only for SIGCHLD");
    if (r == 0)
        __CPROVER_assert(spec_cause(cx_code, cx_signo) == 0, "C17.C-UNKNOWN: unknown is reported only for codes the extractor does not distinguish");
#ifdef COVER
    __CPROVER_cover(r == 0);
    __CPROVER_cover(r == 11);
    __CPROVER_cover(r == 1);
#endif
}

void harness_pid_uid(void) {
    siginfo_t info;
    int cx_pid = nondet_int(), cx_uid = nondet_int();
    info.si_pid = cx_pid;
    info.si_uid = (uid_t)cx_uid;
    __CPROVER_assert(sighook_signal_pid(&info) == cx_pid, "C17.C-PID: the pid accessor reads si_pid");
    __CPROVER_assert(sighook_signal_uid(&info) == (uid_t)cx_uid, "C17.C-UID: the uid accessor reads si_uid");
}

#ifdef NATIVE_REPLAY
#include <stdio.h>
#include <stdlib.h>
#include <string.h>
int main(int argc, char **argv) {
    siginfo_t info;
    memset(&info, 0x5a, sizeof info);
    info.si_code = atoi(argv[1]);
    info.si_signo = atoi(argv[2]);
    int got = sighook_signal_cause(&info), want = spec_cause(info.si_code, info.si_signo);
    printf("sighook_signal_cause({si_code=%d, si_signo=%d}) = %d, kernel-documented class = %d\n", info.si_code, info.si_signo, got, want);
    return got != want;
}
#endif
