// Contracts for src/iterator/backend.rs (+ exfiltrator/mod.rs, exfiltrator/raw.rs): C09, C10, C11,
// C12, iterator part of C14 and C03. Child module of backend: sees private types and fields.
#![allow(dead_code, static_mut_refs, unused_imports, unused_unsafe)]
use super::*;
use crate::iterator::exfiltrator::{SignalOnly, WithRawSiginfo};
use libc::siginfo_t;
use std::os::unix::io::RawFd;
use std::sync::atomic::{AtomicBool, AtomicPtr, Ordering};

#[path = "libc_model.rs"]
mod lm;

// ---- a self-pipe end with a known descriptor --------------------------------------------------
#[derive(Debug)]
pub struct Fd(pub RawFd);
impl AsRawFd for Fd {
    fn as_raw_fd(&self) -> RawFd {
        self.0
    }
}
const RFD: RawFd = 40;
const WFD: RawFd = 41;

// ---- assumed contract of the registry (A12), as seen from backend.rs -----------------------------
// register_sigaction: panics for FORBIDDEN signals before doing anything (C14, proved on the registry
// itself); otherwise either fails with an error, changing nothing, or keeps the action and returns a
// fresh id. The stub also performs `DELIVERIES` deliveries of the captured action.
static mut REG_CALLS: usize = 0;
static mut REG_SIGNAL: c_int = 0;
static mut REG_FAIL: [bool; 4] = [false; 4]; // outcome of the n-th call
static mut DELIVERIES: usize = 0;
static mut NEXT_ID: u128 = 1;
static mut ON_DELIVERED: Option<fn()> = None;
static mut INFO_TAG: c_int = 0;
static mut KEPT: usize = 0; // actions currently owned by the registry (not dropped)

#[repr(C)]
struct RawSigId {
    signal: c_int,
    action: u128,
}
pub unsafe fn register_sigaction_stub<F>(signal: c_int, action: F) -> Result<SigId, Error>
where
    F: Fn(&siginfo_t) + Sync + Send + 'static,
{
    if signal_hook_registry::FORBIDDEN.contains(&signal) {
        // documented panic of the checked entry points; nothing was touched before it
        EXPECTED_PANIC = true;
        kani::assume(false);
    }
    assert!(signal >= 0 && (signal as usize) < MAX_SIGNUM, "C14.ITER-NO-REGISTER: the registry is never asked to register a number the iterator refuses");
    if !TABLE.is_null() {
        assert!((*TABLE).try_lock().is_err(), "C12.ATOMIC-ADD: the id table stays locked from the 'already watched?' lookup until the new id is recorded (two handles adding the same signal cannot both register)");
    }
    let n = REG_CALLS;
    REG_CALLS += 1;
    REG_SIGNAL = signal;
    if n < 4 && REG_FAIL[n] {
        drop(action); // A3: a refused action is dropped by the registry
        return Err(Error::from_raw_os_error(libc::EINVAL));
    }
    let mut i = 0;
    while i < DELIVERIES {
        let mut info: siginfo_t = std::mem::zeroed();
        info.si_signo = signal;
        info.si_code = INFO_TAG + i as c_int;
        action(&info);
        if let Some(f) = ON_DELIVERED {
            f();
        }
        i += 1;
    }
    std::mem::forget(action); // kept alive by the registry until unregister
    KEPT += 1;
    let id = NEXT_ID;
    NEXT_ID += 1;
    Ok(std::mem::transmute_copy::<RawSigId, SigId>(&RawSigId { signal, action: id }))
}
static mut EXPECTED_PANIC: bool = false;
static mut TABLE: *const Mutex<Vec<Option<SigId>>> = std::ptr::null();
static mut UNREG_CALLS: usize = 0;
static mut UNREG_IDS: [u128; 4] = [0; 4];
pub fn unregister_stub(id: SigId) -> bool {
    unsafe {
        let raw: RawSigId = std::mem::transmute_copy(&id);
        if UNREG_CALLS < 4 {
            UNREG_IDS[UNREG_CALLS] = raw.action;
        }
        UNREG_CALLS += 1;
        true
    }
}

// ---- atomics of the iterator: closed flag (monotone environment) and slot flags -----------------
static mut CLOSED_ADDR: usize = 0;
static mut CLOSE_MAY_HAPPEN: bool = false; // another thread may call close() before any load
static mut CLOSED_LOADS: usize = 0;
static mut CLOSED_SEEN_TRUE: bool = false;
static mut SLOT_BASE: usize = 0;
static mut SLOT_STORES: usize = 0;
static mut LAST_SLOT_STORED: usize = usize::MAX;
static mut SLOT_LOADS_DURING_FLUSH: usize = 0;
static mut IN_FLUSH: bool = false;
// per-slot access accounting (C10.CLEAR-ATOMIC) and drain/scan ordering (C09.NO-DRAIN-AFTER-SCAN)
static mut SLOT_PLAIN_LOADS: usize = 0;
static mut SLOT_PLAIN_STORES: usize = 0;
static mut SLOT_RMWS: usize = 0;
static mut DRAINS: usize = 0;
static mut SCANNED_SINCE_DRAIN: usize = 0;
static mut FIRST_SLOT_SINCE_DRAIN: usize = usize::MAX;
fn on_recv_event() {
    unsafe {
        DRAINS += 1;
        SCANNED_SINCE_DRAIN = 0;
        FIRST_SLOT_SINCE_DRAIN = usize::MAX;
    }
}
unsafe fn slot_index(p: usize) -> Option<usize> {
    if SLOT_BASE != 0 && p >= SLOT_BASE && p < SLOT_BASE + MAX_SIGNUM {
        Some(p - SLOT_BASE)
    } else {
        None
    }
}
unsafe fn slot_examined(i: usize) {
    if SCANNED_SINCE_DRAIN == 0 {
        FIRST_SLOT_SINCE_DRAIN = i;
    }
    SCANNED_SINCE_DRAIN += 1;
}
pub fn bool_swap(a: &AtomicBool, v: bool, _o: Ordering) -> bool {
    unsafe {
        let cell = a as *const AtomicBool as *mut bool;
        if let Some(i) = slot_index(a as *const AtomicBool as usize) {
            SLOT_RMWS += 1;
            slot_examined(i);
        }
        let old = *cell;
        *cell = v;
        old
    }
}

pub fn bool_load(a: &AtomicBool, _o: Ordering) -> bool {
    unsafe {
        let p = a as *const AtomicBool as usize;
        let cell = a as *const AtomicBool as *mut bool;
        if let Some(i) = slot_index(p) {
            SLOT_PLAIN_LOADS += 1;
            slot_examined(i);
        }
        if p == CLOSED_ADDR {
            // rely: close() is sticky - once true always true; before that it may become true at any time
            if CLOSE_MAY_HAPPEN && !*cell && kani::any() {
                *cell = true;
            }
            CLOSED_LOADS += 1;
            if *cell {
                CLOSED_SEEN_TRUE = true;
            }
        }
        *cell
    }
}
pub fn bool_store(a: &AtomicBool, v: bool, o: Ordering) {
    unsafe {
        let p = a as *const AtomicBool as usize;
        if p == CLOSED_ADDR {
            assert!(v, "C11.STICKY: nothing ever stores false into the closed flag");
            assert!(matches!(o, Ordering::SeqCst | Ordering::Release | Ordering::AcqRel), "C11.STICKY: the closed flag is published with at least Release ordering (before the wake-up write)");
            lm::ev(lm::EV_USER, 1, 0, 0, 0, 0); // event: closed := true
        } else if SLOT_BASE != 0 && p >= SLOT_BASE && p < SLOT_BASE + MAX_SIGNUM {
            SLOT_PLAIN_STORES += 1;
            SLOT_STORES += 1;
            LAST_SLOT_STORED = p - SLOT_BASE;
            assert!(v, "C10.SET-ONLY: a delivery only ever SETS its slot (clearing is the consumer's compare-exchange)");
            lm::ev(lm::EV_USER + 1, (p - SLOT_BASE) as i64, 0, 0, 0, 0); // event: slot[i] := true
        }
        *(a as *const AtomicBool as *mut bool) = v;
    }
}
pub fn bool_cas(a: &AtomicBool, cur: bool, new: bool, _s: Ordering, _f: Ordering) -> Result<bool, bool> {
    unsafe {
        let p = a as *const AtomicBool as usize;
        let cell = a as *const AtomicBool as *mut bool;
        if SLOT_BASE != 0 && p >= SLOT_BASE && p < SLOT_BASE + MAX_SIGNUM && IN_FLUSH {
            SLOT_LOADS_DURING_FLUSH += 1;
        }
        if let Some(i) = slot_index(p) {
            SLOT_RMWS += 1;
            slot_examined(i);
        }
        if *cell == cur {
            *cell = new;
            Ok(cur)
        } else {
            Err(*cell)
        }
    }
}

/// An instance with no signal added yet. Built field by field (the table of registered ids is not
/// involved in the obligations of the harnesses that use this; C12's harnesses use the real
/// constructor `with_pipe`, whose 128-entry table is expensive for the model checker).
fn new_delivery(_sigs: &[c_int]) -> SignalDelivery<Fd, SignalOnly> {
    let pending = Arc::new(PendingSignals::new(SignalOnly));
    let handle = Handle {
        pending: Arc::clone(&pending) as Arc<dyn AddSignal>,
        write: Arc::new(Fd(WFD)),
        delivery_state: Arc::new(DeliveryState { closed: AtomicBool::new(false), registered_signal_ids: Mutex::new(Vec::new()) }),
    };
    SignalDelivery { read: Fd(RFD), handle, pending }
}
unsafe fn track<E: Exfiltrator>(sd: &SignalDelivery<Fd, E>) {
    CLOSED_ADDR = &sd.handle.delivery_state.closed as *const AtomicBool as usize;
}

// =============================================================================================
// C09.STORE-THEN-WAKE / C09.RIGHT-SLOT / C10.SET-ONLY : the action built by PendingSignals::add_signal
fn after_delivery() {
    unsafe {
        // trace of one delivery: [slot[sig] := true, send(WFD, _, 1, MSG_DONTWAIT)]
        let n = lm::tlen();
        assert!(n == 2, "C09.STORE-THEN-WAKE: a delivery is exactly one slot store followed by one wake-up write");
        let s = lm::at(0);
        let w = lm::at(1);
        assert!(s.kind == lm::EV_USER + 1 && s.a == REG_SIGNAL as i64, "C09.RIGHT-SLOT: the delivery marks the slot of its own signal number (and no other)");
        assert!(w.kind == lm::EV_SEND && w.a == WFD as i64 && w.b == 1 && (w.c & libc::MSG_DONTWAIT as i64) != 0,
            "C09.STORE-THEN-WAKE: the wake-up byte is sent, non-blocking, AFTER the slot was marked (a woken consumer always finds the mark)");
        lm::reset();
    }
}

#[kani::proof]
#[kani::unwind(130)]
#[kani::stub(signal_hook_registry::register_sigaction, register_sigaction_stub)]
#[kani::stub(core::sync::atomic::Atomic::<bool>::store, bool_store)]
fn c09_action() {
    lm::link();
    let pending = Arc::new(PendingSignals::new(SignalOnly));
    let sig: c_int = kani::any();
    kani::assume(sig >= 0 && (sig as usize) < MAX_SIGNUM && !signal_hook_registry::FORBIDDEN.contains(&sig));
    unsafe {
        SLOT_BASE = &pending.slots[0] as *const AtomicBool as usize;
        DELIVERIES = 2;
        ON_DELIVERED = Some(after_delivery);
    }
    let write: Arc<dyn SelfPipeWrite> = Arc::new(Fd(WFD));
    let r = Arc::clone(&pending).add_signal(write, sig);
    assert!(r.is_ok(), "C09.SETUP: the registration of an accepted signal succeeds when the registry accepts it");
    unsafe {
        assert!(REG_CALLS == 1 && REG_SIGNAL == sig, "C10.REGISTERED-SIG: the action is registered for the signal that was asked for");
        assert!(SLOT_STORES == 2 && LAST_SLOT_STORED == sig as usize, "C09.RIGHT-SLOT: two deliveries, two stores, both into slot[signal]");
    }
    let mut i = 0;
    while i < MAX_SIGNUM {
        assert!(pending.slots[i].load(Ordering::SeqCst) == (i == sig as usize), "C10.ONLY-OWN-SLOT: after deliveries of one signal exactly its own slot is marked");
        i += 1;
    }
    kani::cover!(sig == 127, "C09.cover: highest slot");
}

// =============================================================================================
// C10.CLEAR / C10.ECHO : SignalOnly::{store, load}
#[kani::proof]
fn c10_signal_only() {
    use crate::iterator::exfiltrator::Exfiltrator as _;
    let before: bool = kani::any();
    let slot = AtomicBool::new(before);
    let sig: c_int = kani::any();
    let ex = SignalOnly;
    let r = sealed_load(&ex, &slot, sig);
    assert!(r == if before { Some(sig) } else { None }, "C10.CLEAR: load reports a signal iff the slot was marked, and echoes the signal number it was asked about");
    assert!(!slot.load(Ordering::SeqCst), "C10.CLEAR: a reported delivery is consumed (the mark is cleared in the same atomic step)");
    let r2 = sealed_load(&ex, &slot, sig);
    assert!(r2.is_none(), "C10.CLEAR: one mark yields at most one report");
}
// the consumer's "check and clear" is ONE atomic read-modify-write on the slot (two scans racing on
// one mark can then yield it only once)
#[kani::proof]
#[kani::stub(core::sync::atomic::Atomic::<bool>::load, bool_load)]
#[kani::stub(core::sync::atomic::Atomic::<bool>::store, bool_store)]
#[kani::stub(core::sync::atomic::Atomic::<bool>::compare_exchange, bool_cas)]
#[kani::stub(core::sync::atomic::Atomic::<bool>::compare_exchange_weak, bool_cas)]
#[kani::stub(core::sync::atomic::Atomic::<bool>::swap, bool_swap)]
fn c10_signal_only_atomic() {
    lm::link();
    let slots = [AtomicBool::new(kani::any()), AtomicBool::new(false)];
    unsafe {
        SLOT_BASE = &slots[0] as *const AtomicBool as usize;
    }
    let r = sealed_load(&SignalOnly, &slots[0], 7);
    unsafe {
        assert!(SLOT_RMWS == 1 && SLOT_PLAIN_LOADS == 0 && SLOT_PLAIN_STORES == 0, "C10.CLEAR-ATOMIC: load examines and clears the mark in exactly one atomic read-modify-write (never a separate load and store), so one delivery cannot be reported twice by racing scans");
    }
    kani::cover!(r.is_some(), "C10.cover: mark consumed");
}
fn sealed_load<E: Exfiltrator>(e: &E, s: &E::Storage, sig: c_int) -> Option<E::Output> {
    e.load(s, sig)
}

// C10.INDEX-IS-SIG / C10.ADVANCE-ON-NONE / C09.SCAN-ALL : Pending::next over arbitrary slot contents
#[kani::proof]
#[kani::unwind(130)]
fn c10_pending_next() {
    let pending = Arc::new(PendingSignals::new(SignalOnly));
    // up to two marked slots at symbolic positions (any pattern matters only through "first marked >= p")
    let a: usize = kani::any();
    let b: usize = kani::any();
    kani::assume(a < MAX_SIGNUM && b < MAX_SIGNUM && a <= b);
    let mark_a: bool = kani::any();
    let mark_b: bool = kani::any();
    if mark_a {
        pending.slots[a].store(true, Ordering::SeqCst);
    }
    if mark_b {
        pending.slots[b].store(true, Ordering::SeqCst);
    }
    let mut it = Pending::new(Arc::clone(&pending));
    let start: usize = kani::any();
    kani::assume(start <= MAX_SIGNUM);
    it.position = start;
    let r = it.next();
    let expect = if mark_a && a >= start {
        Some(a)
    } else if mark_b && b >= start {
        Some(b)
    } else {
        None
    };
    assert!(r == expect.map(|x| x as c_int), "C10.INDEX-IS-SIG: next() yields exactly the first marked slot at or after its position, as that slot's own number, or None (C09.SCAN-ALL: none is skipped)");
    match expect {
        Some(x) => {
            assert!(it.position == x, "C10.ADVANCE-ON-NONE: the position moves only past slots that reported nothing");
            assert!(!pending.slots[x].load(Ordering::SeqCst), "C10.CLEAR: the yielded mark is consumed");
        }
        None => assert!(it.position == MAX_SIGNUM, "C09.SCAN-ALL: None only after every remaining slot was examined"),
    }
    kani::cover!(expect == Some(127), "C10.cover: last slot");
    kani::cover!(mark_a && mark_b && a < start && b >= start, "C10.cover: earlier mark already passed");
}

// =============================================================================================
// C09.DRAIN-THEN-SCAN : SignalDelivery::pending = flush (drain the pipe) then a fresh scan from 0
fn on_recv_check() {}
#[kani::proof]
#[kani::unwind(130)]
#[kani::stub(core::sync::atomic::Atomic::<bool>::compare_exchange, bool_cas)]
fn c09_pending_drain() {
    lm::link();
    let mut sd = new_delivery(&[]);
    unsafe {
        SLOT_BASE = &sd.pending.slots[0] as *const AtomicBool as usize;
        lm::RECV_BUDGET = 2; // up to two recv()s still find data (bounded: K=2), then <= 0
        lm::reset();
        IN_FLUSH = true;
    }
    let p = sd.pending();
    unsafe {
        IN_FLUSH = false;
        let n = lm::tlen();
        assert!(n >= 1 && n <= 3, "C09.DRAIN-THEN-SCAN: the pipe is drained until recv reports nothing more");
        let mut i = 0;
        while i < 3 {
            if i < n {
                let e = lm::at(i);
                assert!(e.kind == lm::EV_RECV && e.a == RFD as i64 && (e.c & libc::MSG_DONTWAIT as i64) != 0, "C09.DRAIN-NONBLOCK: draining reads the read end with MSG_DONTWAIT only (never blocks)");
                assert!((e.r > 0) == (i + 1 < n), "C09.DRAIN-THEN-SCAN: it continues exactly while recv returned data and stops at the first empty/failed read");
            }
            i += 1;
        }
        assert!(SLOT_LOADS_DURING_FLUSH == 0, "C09.DRAIN-THEN-SCAN: no slot is examined before the pipe has been drained");
    }
    assert!(p.position == 0, "C09.DRAIN-THEN-SCAN: the batch scans all slots from the start, after the drain");
    kani::cover!(lm::tlen() == 3, "C09.cover: two full reads then empty");
    std::mem::forget(p);
    std::mem::forget(sd); // tear-down (DeliveryState::drop) is C12's harness, not this one
}

// =============================================================================================
// C11 : close / poll_pending / poll_signal under a monotone closed flag
static mut CB_CALLS: usize = 0;
static mut CB_LAST: u8 = 0; // 1 = Ok(false), 2 = Ok(true), 3 = Err
static mut CB_TRUE_BUDGET: usize = 0;
fn has_signals_cb(_r: &mut Fd) -> Result<bool, Error> {
    unsafe {
        CB_CALLS += 1;
        let c: u8 = kani::any();
        kani::assume(c >= 1 && c <= 3);
        if c == 2 {
            kani::assume(CB_TRUE_BUDGET > 0);
            CB_TRUE_BUDGET -= 1;
        }
        CB_LAST = c;
        match c {
            1 => Ok(false),
            2 => Ok(true),
            _ => Err(Error::from_raw_os_error(libc::EIO)),
        }
    }
}

#[kani::proof]
#[kani::unwind(130)]
#[kani::stub(core::sync::atomic::Atomic::<bool>::store, bool_store)]
fn c11_close() {
    lm::link();
    let sd = new_delivery(&[]);
    unsafe {
        track(&sd);
        lm::reset();
    }
    let h = sd.handle();
    assert!(!h.is_closed(), "C11.OPEN-INITIALLY: a new instance is not closed");
    h.close();
    unsafe {
        assert!(lm::tlen() == 2 && lm::at(0).kind == lm::EV_USER && lm::at(1).kind == lm::EV_SEND && lm::at(1).a == WFD as i64 && lm::at(1).b == 1,
            "C11.CLOSE-THEN-WAKE: close sets the flag and THEN writes a wake-up byte (a blocked reader that wakes sees the flag)");
        assert!((lm::at(1).c & libc::MSG_DONTWAIT as i64) != 0, "C11.CLOSE-THEN-WAKE: close itself never blocks");
    }
    assert!(h.is_closed() && sd.handle().is_closed(), "C11.STICKY: after close every handle reports closed");
    h.close();
    assert!(h.is_closed(), "C11.STICKY: closing twice keeps it closed");
    std::mem::forget(h);
    std::mem::forget(sd);
}

#[kani::proof]
#[kani::unwind(130)]
#[kani::stub(core::sync::atomic::Atomic::<bool>::load, bool_load)]
fn c11_poll_pending() {
    lm::link();
    let mut sd = new_delivery(&[]);
    unsafe {
        track(&sd);
        CLOSE_MAY_HAPPEN = true;
        CB_TRUE_BUDGET = 1;
        lm::RECV_BUDGET = 1;
    }
    let r = sd.poll_pending(&mut has_signals_cb);
    unsafe {
        if CB_CALLS == 0 {
            assert!(CLOSED_SEEN_TRUE, "C11.NO-BLOCK-AFTER-CLOSE: the (possibly blocking) callback is skipped only when the instance was seen closed");
            assert!(matches!(r, Ok(None)), "C11.NO-BLOCK-AFTER-CLOSE: a closed instance returns at once with no batch");
            kani::cover!(true, "C11.cover: poll_pending on closed instance");
        } else {
            assert!(CB_CALLS == 1, "C11.ONE-CALLBACK: the readiness callback is consulted once per poll_pending");
            match CB_LAST {
                1 => assert!(matches!(r, Ok(None)), "C09.POLL-MAP: 'nothing available' gives no batch"),
                2 => assert!(matches!(r, Ok(Some(_))), "C09.POLL-MAP: 'something available' gives a batch (after draining)"),
                _ => assert!(r.is_err(), "C09.POLL-MAP: callback errors are passed on"),
            }
        }
    }
    std::mem::forget(r);
    std::mem::forget(sd);
}

// poll_signal: the callback's answers follow a CONCRETE schedule per harness (so that the model
// checker sees the loop bound); what stays symbolic is when close() lands (any load of the flag).
static mut SCHED: [u8; 3] = [0; 3];
fn has_signals_sched(_r: &mut Fd) -> Result<bool, Error> {
    unsafe {
        kani::assume(CB_CALLS < 3 && SCHED[CB_CALLS] != 0);
        let c = SCHED[CB_CALLS];
        CB_CALLS += 1;
        CB_LAST = c;
        match c {
            1 => Ok(false),
            2 => Ok(true),
            _ => Err(Error::from_raw_os_error(libc::EIO)),
        }
    }
}
// (Kani 0.68 cannot stub a trait method of a generic impl, so Pending::next cannot be replaced by its
// contract here. The control-flow harnesses below - unit `backend_small` - therefore run on a scratch
// copy in which the driver rewrites `const MAX_SIGNUM: usize = 128;` to 4: the scan is the same
// code with a shorter table; the table-size-dependent obligations are proved on the real 128 in
// unit `backend`.)
// close() has RETURNED before the call starts: nothing may block, i.e. the (possibly blocking)
// readiness callback must not be consulted at all - for poll_pending (used by wait()) and poll_signal
#[kani::proof]
#[kani::unwind(130)]
fn c11_closed_before_call() {
    lm::link();
    let mut sd = new_delivery(&[]);
    sd.handle().close();
    unsafe {
        CB_CALLS = 0;
        CB_TRUE_BUDGET = 0;
    }
    let r = sd.poll_pending(&mut has_signals_cb);
    unsafe {
        assert!(CB_CALLS == 0, "C11.NO-BLOCK-AFTER-CLOSE: once close() has returned, wait/poll_pending never consults the (blocking) readiness callback again");
    }
    assert!(matches!(r, Ok(None)), "C11.NO-BLOCK-AFTER-CLOSE: it returns at once with no batch (the caller then scans what is pending)");
    std::mem::forget(r);
    std::mem::forget(sd);
}

macro_rules! poll_signal_harness {
    ($name:ident, $marked:expr, $sched:expr) => {
        #[kani::proof]
        #[kani::unwind(6)]
        #[kani::stub(core::sync::atomic::Atomic::<bool>::load, bool_load)]
        #[kani::stub(core::sync::atomic::Atomic::<bool>::compare_exchange, bool_cas)]
        #[kani::stub(core::sync::atomic::Atomic::<bool>::swap, bool_swap)]
        fn $name() {
            lm::link();
            let sd = new_delivery(&[]);
            unsafe {
                track(&sd);
                SLOT_BASE = &sd.pending.slots[0] as *const AtomicBool as usize;
                lm::RECV_BUDGET = 0;
                lm::ON_RECV = Some(on_recv_event);
            }
            let mut it: SignalIterator<SignalDelivery<Fd, SignalOnly>, SignalOnly> = SignalIterator::new(sd);
            let marked: bool = $marked;
            if marked {
                // one delivery of signal 2 is pending in its slot (not yet seen by the current batch)
                it.signals.pending.slots[2].store(true, Ordering::SeqCst);
            }
            unsafe {
                CLOSE_MAY_HAPPEN = true; // close() may land between any two checks
                SCHED = $sched;
                CB_CALLS = 0;
            }
            unsafe {
                DRAINS = 0;
                SCANNED_SINCE_DRAIN = 0;
                FIRST_SLOT_SINCE_DRAIN = usize::MAX;
            }
            let r = it.poll_signal(&mut has_signals_sched);
            unsafe {
                if matches!(r, PollResult::Signal(_) | PollResult::Pending) && DRAINS > 0 {
                    assert!(SCANNED_SINCE_DRAIN > 0 && FIRST_SLOT_SINCE_DRAIN == 0, "C09.NO-DRAIN-AFTER-SCAN: whenever the pipe was drained during the call, a scan of the slots from the first one follows before a signal or 'pending' is reported (a wake-up byte is never discarded after the slot it announces was already passed)");
                }
                match r {
                    PollResult::Pending => {
                        assert!(CB_CALLS >= 1 && CB_LAST == 1, "C11.PENDING-ONLY-IF-ARMED: 'pending' is reported only if, during this very call, the readiness callback was consulted and its last answer was 'nothing available' (so the caller has an armed wake-up)");
                        kani::cover!(true, "C11.cover: pending");
                    }
                    PollResult::Closed => {
                        assert!(CLOSED_SEEN_TRUE, "C11.CLOSED-ONLY-IF-CLOSED: 'closed' is reported only after the flag was seen set");
                        kani::cover!(true, "C11.cover: closed");
                    }
                    PollResult::Signal(s) => {
                        assert!(marked && s == 2, "C10.POLL-REAL: poll_signal yields only a signal whose slot was marked");
                        kani::cover!(true, "C11.cover: signal");
                    }
                    PollResult::Err(e) => {
                        assert!(CB_LAST == 3, "C09.POLL-MAP: an error is reported only when the callback failed");
                        std::mem::forget(e);
                    }
                }
            }
            std::mem::forget(it);
        }
    };
}
poll_signal_harness!(c11_poll_signal_idle_f, false, [1, 0, 0]);
poll_signal_harness!(c11_poll_signal_idle_e, false, [3, 0, 0]);
poll_signal_harness!(c11_poll_signal_idle_tf, false, [2, 1, 0]);
poll_signal_harness!(c11_poll_signal_marked_f, true, [1, 0, 0]);
poll_signal_harness!(c11_poll_signal_marked_tf, true, [2, 1, 0]);
poll_signal_harness!(c11_poll_signal_idle_ttf, false, [2, 2, 1]);
poll_signal_harness!(c11_poll_signal_marked_te, true, [2, 3, 0]);
// every schedule of at most three callback answers (false / true / error, then no further call) and both slot
// states at once: subsumes the concrete harnesses above (kept in the quick tier because they are cheaper)
fn any_sched() -> [u8; 3] {
    let s: [u8; 3] = [kani::any(), kani::any(), kani::any()];
    kani::assume(s[0] >= 1 && s[0] <= 3 && s[1] <= 3 && s[2] <= 3);
    kani::assume(s[1] != 0 || s[2] == 0);
    // after "nothing available" or an error the call returns: later entries are never consulted
    kani::assume(s[0] == 2 || s[1] == 0);
    kani::assume(s[1] == 2 || s[2] == 0);
    // the third answer ends the call (the model of the callback has no fourth answer)
    kani::assume(s[2] != 2);
    s
}
poll_signal_harness!(c11_poll_signal_sym, kani::any(), any_sched());

// =============================================================================================
// C12 / C14 : Handle::add_signal over all c_int; retry after Err; idempotence; drop unregisters all
fn rejected_by_panic(sig: c_int) -> bool {
    sig < 0 || (sig as usize) >= MAX_SIGNUM || signal_hook_registry::FORBIDDEN.contains(&sig)
}

// Two consecutive add_signal calls for an accepted number, registry answering Ok/Err freely.
unsafe fn two_adds(h: &Handle, sig: c_int) {
    TABLE = &h.delivery_state.registered_signal_ids as *const Mutex<Vec<Option<SigId>>>;
    REG_FAIL[0] = kani::any();
    REG_FAIL[1] = kani::any();
    REG_CALLS = 0;
    let first_failed = REG_FAIL[0];
    let r1 = h.add_signal(sig);
    assert!(r1.is_err() == first_failed, "C12.ERR-PASSTHROUGH: add_signal fails exactly when the registration failed");
    assert!(REG_CALLS == 1 && REG_SIGNAL == sig, "C12.REGISTER-ONCE: one registration attempt for the requested number");
    let r2 = h.add_signal(sig);
    if first_failed {
        assert!(REG_CALLS == 2, "C12.RETRY: after a failed add_signal a later add_signal of the same number behaves like a first call (it registers again)");
        assert!(r2.is_err() == REG_FAIL[1], "C12.RETRY: and reports that attempt's outcome");
        kani::cover!(r2.is_ok(), "C12.cover: retry succeeded");
    } else {
        assert!(REG_CALLS == 1 && r2.is_ok(), "C12.IDEMPOTENT: re-adding a watched signal is a no-op that succeeds");
    }
    std::mem::forget(r1);
    std::mem::forget(r2);
    assert!((*TABLE).try_lock().is_ok(), "C12.TABLE-RELEASED: the table lock is released when add_signal returns");
}

// (a) the real 128-entry table and the info-carrying exfiltrator, one representative signal
#[kani::proof]
#[kani::unwind(130)]
#[kani::stub(signal_hook_registry::register_sigaction, register_sigaction_stub)]
fn c12_retry_raw() {
    lm::link();
    let sd = SignalDelivery::with_pipe(Fd(RFD), Fd(WFD), WithRawSiginfo, (&[] as &[c_int]).iter()).unwrap();
    let h = sd.handle();
    unsafe { two_adds(&h, libc::SIGUSR1) };
    std::mem::forget(h);
    std::mem::forget(sd);
}

// (a') the same on the shortened table, every accepted index
#[kani::proof]
#[kani::unwind(7)]
#[kani::stub(signal_hook_registry::register_sigaction, register_sigaction_stub)]
fn c12_retry_raw_small() {
    lm::link();
    let sd = SignalDelivery::with_pipe(Fd(RFD), Fd(WFD), WithRawSiginfo, (&[] as &[c_int]).iter()).unwrap();
    let h = sd.handle();
    let sig: c_int = kani::any();
    kani::assume(!rejected_by_panic(sig));
    unsafe { two_adds(&h, sig) };
    std::mem::forget(h);
    std::mem::forget(sd);
}

// (b) every accepted index of the (shortened) table, flag exfiltrator; then tear-down
#[kani::proof]
#[kani::unwind(6)]
#[kani::stub(signal_hook_registry::register_sigaction, register_sigaction_stub)]
#[kani::stub(signal_hook_registry::unregister, unregister_stub)]
fn c12_add_and_drop() {
    lm::link();
    let sd = SignalDelivery::with_pipe(Fd(RFD), Fd(WFD), SignalOnly, (&[] as &[c_int]).iter()).unwrap();
    let h = sd.handle();
    let sig: c_int = kani::any();
    kani::assume(!rejected_by_panic(sig));
    unsafe { two_adds(&h, sig) };
    // ---- tear-down: every registration that succeeded, and only those, is removed exactly once ----
    let registered = unsafe { KEPT };
    drop(h);
    drop(sd);
    unsafe {
        assert!(UNREG_CALLS == registered, "C12.DROP-ALL: dropping the instance and its handles unregisters exactly the registrations it made");
        assert!(registered <= 1, "C12.IDEMPOTENT: a signal is registered at most once per instance");
        if registered == 1 {
            assert!(UNREG_IDS[0] == NEXT_ID - 1, "C12.DROP-ALL: with the id the registry handed out");
        }
        kani::cover!(registered == 1, "C12.cover: one registration torn down");
    }
}

// (b') drop order: the instance goes first, a surviving handle keeps adding, then the handle goes ("every sequence of
// new / add_signal / clone-handle / drop calls"): whatever was registered through the handle is removed as well
#[kani::proof]
#[kani::unwind(6)]
#[kani::stub(signal_hook_registry::register_sigaction, register_sigaction_stub)]
#[kani::stub(signal_hook_registry::unregister, unregister_stub)]
fn c12_handle_outlives() {
    lm::link();
    let sd = SignalDelivery::with_pipe(Fd(RFD), Fd(WFD), SignalOnly, (&[] as &[c_int]).iter()).unwrap();
    let h = sd.handle();
    let h2 = h.clone();
    drop(sd);
    let sig: c_int = kani::any();
    kani::assume(!rejected_by_panic(sig));
    unsafe { two_adds(&h, sig) };
    let registered = unsafe { KEPT };
    drop(h);
    drop(h2);
    unsafe {
        assert!(UNREG_CALLS == registered, "C12.DROP-ALL: once the instance and all its handles are gone every registration it made has been removed - also one made through a handle that outlived the instance");
        kani::cover!(registered == 1, "C12.cover: registration through a surviving handle torn down");
    }
}

// (c) constructor: the first failing signal aborts construction and what was registered is removed
#[kani::proof]
#[kani::unwind(6)]
#[kani::stub(signal_hook_registry::register_sigaction, register_sigaction_stub)]
#[kani::stub(signal_hook_registry::unregister, unregister_stub)]
fn c12_ctor_clean() {
    lm::link();
    unsafe {
        REG_FAIL[0] = false;
        REG_FAIL[1] = true;
    }
    let r = SignalDelivery::with_pipe(Fd(RFD), Fd(WFD), SignalOnly, [1 as c_int, 2, 3].iter());
    assert!(r.is_err(), "C12.CTOR-CLEAN: a constructor whose second signal is refused fails");
    unsafe {
        assert!(REG_CALLS == 2, "C12.CTOR-CLEAN: construction stops at the first refused signal");
        assert!(UNREG_CALLS == 1 && UNREG_IDS[0] == NEXT_ID - 1, "C12.CTOR-CLEAN: the registration made before the failure is removed again (nothing stays registered)");
    }
    std::mem::forget(r);
}

// rejected-by-panic inputs: no effect (exfiltrator init, registration, table write) before the panic
static mut INIT_SEEN: bool = false;
#[kani::proof]
#[kani::unwind(130)]
#[kani::stub(signal_hook_registry::register_sigaction, register_sigaction_stub)]
fn c12_add_signal_rejected() {
    lm::link();
    let sd = SignalDelivery::with_pipe(Fd(RFD), Fd(WFD), WithRawSiginfo, (&[] as &[c_int]).iter()).unwrap();
    let h = sd.handle();
    let sig: c_int = kani::any();
    kani::assume(rejected_by_panic(sig));
    unsafe {
        REG_CALLS = 0;
    }
    let r = h.add_signal(sig);
    // reaching this point means the call returned normally for an input that must be refused
    let _ = r;
    assert!(false, "C14.ITER-REFUSE: add_signal refuses (by its documented panic) every negative, too large or forbidden number");
}

