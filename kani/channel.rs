// Contracts for src/low_level/channel.rs (C06, C07, C08). Injected as a child module, so `super::*`
// gives the real private `get`, `set`, `enqueue`, `dequeue` and the fields of `Channel`.
//
// Two kinds of harness:
//  * sequential contracts (real atomics, no interference): the abstract FIFO semantics of
//    enqueue/dequeue/send/recv from EVERY state satisfying the channel invariant;
//  * rely/guarantee runs: every access to the two queue words goes through an environment stub that
//    first moves the shared state to ANY state satisfying the invariant in which the indices owned by
//    the operation under test are still owned by it (this is closed under any number of complete or
//    partial sends/recvs of other threads and of nested signal handlers), and that checks the
//    guarantee at each successful CAS of the code under test.
#![allow(dead_code, static_mut_refs, unused_imports, unused_unsafe)]
use super::*;
use std::cell::UnsafeCell;
use std::ptr;
use std::sync::atomic::{AtomicU16, Ordering};

// ---------------------------------------------------------------------------------------------
// Spec-level view of a queue word (independent of the code's own get/set).
pub fn fld(w: u16, i: u16) -> u16 {
    (w >> (3 * i)) & 7
}
pub fn qlen(w: u16) -> u16 {
    let mut n = 0;
    while n < 5 && fld(w, n) != 0 {
        n += 1;
    }
    n
}
pub fn member(w: u16, idx: u16) -> bool {
    let mut i = 0;
    let mut m = false;
    while i < 5 {
        if fld(w, i) == idx {
            m = true;
        }
        i += 1;
    }
    idx != 0 && m
}
/// well-formed: bit 15 clear, contiguous prefix of distinct indices in 1..=5, zeros after.
pub fn wf(w: u16) -> bool {
    if w & 0x8000 != 0 {
        return false;
    }
    let n = qlen(w);
    let mut ok = true;
    let mut i = 0;
    while i < 5 {
        let f = fld(w, i);
        if i < n {
            if f == 0 || f > 5 {
                ok = false;
            }
            let mut j = 0;
            while j < i {
                if fld(w, j) == f {
                    ok = false;
                }
                j += 1;
            }
        } else if f != 0 {
            ok = false;
        }
        i += 1;
    }
    ok
}
fn bit(idx: u16) -> u8 {
    1u8 << idx
}
/// The channel invariant on the two words and the ownership set `mine` (bit i = index i is held by
/// the operation under test): every index is in at most one place.
fn inv_words(e: u16, f: u16, mine: u8) -> bool {
    if !wf(e) || !wf(f) {
        return false;
    }
    let mut ok = true;
    let mut idx = 1;
    while idx <= 5 {
        let n = member(e, idx) as u8 + member(f, idx) as u8 + ((mine & bit(idx)) != 0) as u8;
        if n > 1 {
            ok = false;
        }
        idx += 1;
    }
    ok
}

// ---------------------------------------------------------------------------------------------
// Payload with an observable destructor.
pub struct P {
    id: u8,
}
static mut NDROPS: u32 = 0;
static mut WATCH: u8 = 0;
static mut WATCH_DROPS: u32 = 0;
impl Drop for P {
    fn drop(&mut self) {
        unsafe {
            NDROPS += 1;
            if self.id == WATCH {
                WATCH_DROPS += 1;
            }
        }
    }
}

// ---------------------------------------------------------------------------------------------
// Ghost state of the environment model.
static mut CHAN: *const Channel<P> = ptr::null();
static mut E_ADDR: usize = 0;
static mut F_ADDR: usize = 0;
static mut ENV_ON: bool = false; // havoc before each access
static mut MINE: u8 = 0;
static mut FAIL_BUDGET: u32 = 0;
static mut FAILS: u32 = 0;
static mut LOADS: u32 = 0;
static mut CASES: u32 = 0;
static mut POPS: u32 = 0;
static mut PUSHES: u32 = 0;
static mut LAST_SEEN_E: u16 = 0xffff;
static mut LAST_SEEN_F: u16 = 0xffff;
static mut PUSHED_FULL: u16 = 0; // index pushed to `full` by the code under test (0 = none)
static mut POPPED_FULL: u16 = 0;
static mut CELL_ACCESSES: u32 = 0;

unsafe fn raw(a: &AtomicU16) -> *mut u16 {
    a as *const AtomicU16 as *mut u16
}
unsafe fn cell_ptr(i: u16) -> *mut Option<P> {
    // same address UnsafeCell::get would give (repr(transparent)), without going through the stub
    &(*CHAN).storage[i as usize - 1] as *const UnsafeCell<Option<P>> as *mut Option<P>
}
unsafe fn words() -> (u16, u16) {
    (*(E_ADDR as *const u16), *(F_ADDR as *const u16))
}

/// Rely: other threads / nested handlers may have done anything that keeps the invariant and does not
/// touch what the operation under test owns (its indices and their cells).
unsafe fn havoc() {
    havoc_with(MINE, MINE)
}
unsafe fn havoc_with(owned: u8, preserve: u8) {
    let e: u16 = kani::any();
    let f: u16 = kani::any();
    kani::assume(inv_words(e, f, owned));
    *(E_ADDR as *mut u16) = e;
    *(F_ADDR as *mut u16) = f;
    let mut idx = 1;
    while idx <= 5 {
        if preserve & bit(idx) == 0 {
            let v: Option<P> = if kani::any() { Some(P { id: kani::any() }) } else { None };
            kani::assume(!member(f, idx) || v.is_some());
            kani::assume(!member(e, idx) || v.is_none());
            ptr::write(cell_ptr(idx), v);
        }
        idx += 1;
    }
}
unsafe fn is_queue(a: &AtomicU16) -> bool {
    let p = a as *const AtomicU16 as usize;
    p == E_ADDR || p == F_ADDR
}
unsafe fn seen(a: &AtomicU16, v: u16) {
    if a as *const AtomicU16 as usize == E_ADDR {
        LAST_SEEN_E = v;
    } else {
        LAST_SEEN_F = v;
    }
}
fn has_acquire(o: Ordering) -> bool {
    matches!(o, Ordering::Acquire | Ordering::AcqRel | Ordering::SeqCst)
}
fn has_release(o: Ordering) -> bool {
    matches!(o, Ordering::Release | Ordering::AcqRel | Ordering::SeqCst)
}

// ---- environment stubs (assumed sequential meaning of each operation + rely; ledger A7) --------
pub fn u16_load(a: &AtomicU16, _o: Ordering) -> u16 {
    unsafe {
        if is_queue(a) {
            if ENV_ON {
                havoc();
            }
            LOADS += 1;
        }
        let v = *raw(a);
        if is_queue(a) {
            seen(a, v);
        }
        v
    }
}
unsafe fn cas(a: &AtomicU16, current: u16, new: u16, success: Ordering, _failure: Ordering, weak: bool) -> Result<u16, u16> {
    if !is_queue(a) {
        let v = *raw(a);
        if v == current {
            *raw(a) = new;
            return Ok(v);
        }
        return Err(v);
    }
    if ENV_ON {
        havoc();
    }
    CASES += 1;
    let v = *raw(a);
    let spurious: bool = kani::any();
    if v != current || (weak && spurious) {
        // interference (or a spurious weak failure) happens at most FAIL_BUDGET times per call
        kani::assume(FAILS < FAIL_BUDGET);
        FAILS += 1;
        seen(a, v);
        return Err(v);
    }
    // ---- guarantee of the code under test at its linearization point ----
    let on_full = a as *const AtomicU16 as usize == F_ADDR;
    let head = current & 7;
    let n = qlen(current);
    if head != 0 && new == current >> 3 {
        POPS += 1;
        assert!(has_acquire(success), "C07.G-ACQ: the CAS that takes an index out of a queue has (at least) Acquire ordering, so the cell access after it is ordered after the matching enqueue");
        MINE |= bit(head);
        if on_full {
            POPPED_FULL = head;
        }
    } else if n < 5 && new == (current | (fld(new, n) << (3 * n))) && fld(new, n) != 0 && fld(new, n) <= 5 {
        let idx = fld(new, n);
        PUSHES += 1;
        assert!(MINE & bit(idx) != 0, "C06.OWN: only an index this operation took out of a queue is put into a queue (nothing is invented or duplicated)");
        assert!(has_release(success), "C07.G-REL: the CAS that publishes an index has (at least) Release ordering, so the cell access before it is ordered before the matching dequeue");
        if on_full {
            assert!((*cell_ptr(idx)).is_some(), "C06.G-INV: an index is published in `full` only with a value in its cell");
            PUSHED_FULL = idx;
        } else {
            assert!((*cell_ptr(idx)).is_none(), "C07.EMPTY-MEANS-NONE: an index is returned to `empty` only after its value was taken out");
        }
        MINE &= !bit(idx);
    } else {
        assert!(false, "C06.ATOMIC: every successful CAS on a queue word is exactly a pop-front or a push-back applied to the value it expected");
    }
    *raw(a) = new;
    let (e, f) = words();
    assert!(inv_words(e, f, MINE), "C06.G-INV: the step keeps the channel invariant (both words well-formed, every index in at most one place)");
    Ok(v)
}
pub fn u16_cas_weak(a: &AtomicU16, current: u16, new: u16, success: Ordering, failure: Ordering) -> Result<u16, u16> {
    unsafe { cas(a, current, new, success, failure, true) }
}
pub fn u16_cas_strong(a: &AtomicU16, current: u16, new: u16, success: Ordering, failure: Ordering) -> Result<u16, u16> {
    unsafe { cas(a, current, new, success, failure, false) }
}
pub fn u16_store(a: &AtomicU16, v: u16, _o: Ordering) {
    unsafe {
        assert!(!is_queue(a), "C06.NO-STORE: a queue word is never overwritten by a plain store (lost update)");
        *raw(a) = v;
    }
}
pub fn u16_swap(a: &AtomicU16, v: u16, _o: Ordering) -> u16 {
    unsafe {
        assert!(!is_queue(a), "C06.NO-STORE: a queue word is never overwritten by a swap (lost update)");
        let old = *raw(a);
        *raw(a) = v;
        old
    }
}
/// Cell accesses: only cells whose index the operation owns (C07).
pub fn cell_get<T: ?Sized>(c: &UnsafeCell<T>) -> *mut T {
    unsafe {
        if !CHAN.is_null() {
            let base = &(*CHAN).storage[0] as *const UnsafeCell<Option<P>> as usize;
            let sz = std::mem::size_of::<UnsafeCell<Option<P>>>();
            let p = c as *const UnsafeCell<T> as *const u8 as usize;
            if p >= base && p < base + 5 * sz {
                let idx = ((p - base) / sz) as u16 + 1;
                CELL_ACCESSES += 1;
                assert!(MINE & bit(idx) != 0, "C07.OWN-CELL: a payload cell is read or written only while its index is owned by the accessing operation (never concurrently with another access)");
            }
        }
    }
    c as *const UnsafeCell<T> as *mut T
}

// ---------------------------------------------------------------------------------------------
// Harness set-up: a channel in an arbitrary state satisfying the invariant.
unsafe fn arbitrary_channel(ch: &Channel<P>) {
    CHAN = ch;
    E_ADDR = &ch.empty as *const AtomicU16 as usize;
    F_ADDR = &ch.full as *const AtomicU16 as usize;
    // indices in flight at entry belong to operations of other threads or to the operation this one
    // interrupted (nested delivery); their cells hold anything
    let in_flight: u8 = kani::any();
    kani::assume(in_flight & 0b1100_0001 == 0);
    havoc_with(in_flight, 0);
    MINE = 0;
}
fn new_raw() -> Channel<P> {
    // plain construction without running enqueue: state is set by arbitrary_channel
    Channel { storage: Default::default(), empty: AtomicU16::new(0), full: AtomicU16::new(0) }
}

// (C06.BITS / C06.DEQ / C06.ENQ, which call the private get/set/enqueue/dequeue directly, live in
// /verif/kani/channel_priv.rs so that a signature change of those helpers cannot take the public-API
// contracts below down with it.)

// C06.NEW - a fresh channel: empty = [1..5], full = [], all cells None
#[kani::proof]
#[kani::unwind(7)]
fn c06_new() {
    let ch: Channel<P> = Channel::new();
    let e = ch.empty.load(Ordering::SeqCst);
    let f = ch.full.load(Ordering::SeqCst);
    assert!(wf(e) && qlen(e) == 5 && fld(e, 0) == 1 && fld(e, 1) == 2 && fld(e, 2) == 3 && fld(e, 3) == 4 && fld(e, 4) == 5 && f == 0, "C06.NEW: a new channel has all five slots free, in order, and nothing queued");
    let mut i = 0;
    while i < 5 {
        assert!(unsafe { (*ch.storage[i].get()).is_none() }, "C06.NEW: all cells start empty");
        i += 1;
    }
    assert!(ch.recv().is_none(), "C06.NEW: a new channel reports empty");
    std::mem::forget(ch);
}

// C06.SEND / C06.RECV - sequential contract of send/recv from every state satisfying the invariant
// (frozen environment). Together: the channel is a FIFO of capacity 5 minus indices in flight.
#[kani::proof]
#[kani::unwind(7)]
fn c06_seq_send() {
    let ch = new_raw();
    unsafe {
        arbitrary_channel(&ch);
        let (e, f) = words();
        let id: u8 = kani::any();
        WATCH = id;
        // snapshot of the cells
        let mut before: [Option<u8>; 5] = [None; 5];
        let mut i = 0;
        while i < 5 {
            before[i] = (*cell_ptr(i as u16 + 1)).as_ref().map(|p| p.id);
            i += 1;
        }
        let d0 = NDROPS;
        ch.send(P { id });
        let (e2, f2) = words();
        if qlen(e) == 0 {
            assert!(e2 == e && f2 == f, "C06.FULL-ONLY-WHEN-5: a send is discarded only when no slot is free (all five are queued or in flight), and then changes nothing");
            assert!(NDROPS == d0 + 1 && WATCH_DROPS == 1, "C07.DROP-ONCE: a discarded value is dropped exactly once, by send");
            kani::cover!(qlen(f) == 5, "C06.cover: send on a full channel");
            kani::cover!(qlen(f) < 5, "C06.cover: send with slots in flight");
        } else {
            let idx = fld(e, 0);
            assert!(e2 == e >> 3, "C06.SEND: send takes the first free slot");
            assert!(qlen(f2) == qlen(f) + 1 && fld(f2, qlen(f)) == idx && f2 == (f | (idx << (3 * qlen(f)))), "C06.SEND: and appends it behind everything already queued (FIFO order)");
            assert!((*cell_ptr(idx)).as_ref().map(|p| p.id) == Some(id), "C06.SEND: the slot holds exactly the value sent");
            let mut i = 0;
            while i < 5 {
                if i as u16 + 1 != idx {
                    assert!((*cell_ptr(i as u16 + 1)).as_ref().map(|p| p.id) == before[i], "C06.SEND: no other slot is touched (nothing overwritten)");
                }
                i += 1;
            }
            assert!(NDROPS == d0, "C07.NO-EARLY-DROP: a successful send drops nothing (the value now lives in the channel)");
            kani::cover!(qlen(f) == 4, "C06.cover: send fills the channel");
        }
    }
    std::mem::forget(ch);
}
#[kani::proof]
#[kani::unwind(7)]
fn c06_seq_recv() {
    let ch = new_raw();
    unsafe {
        arbitrary_channel(&ch);
        let (e, f) = words();
        let mut before: [Option<u8>; 5] = [None; 5];
        let mut i = 0;
        while i < 5 {
            before[i] = (*cell_ptr(i as u16 + 1)).as_ref().map(|p| p.id);
            i += 1;
        }
        let d0 = NDROPS;
        let r = ch.recv();
        let (e2, f2) = words();
        if qlen(f) == 0 {
            assert!(r.is_none() && e2 == e && f2 == f, "C06.RECV: receive reports empty exactly when nothing is queued, and changes nothing");
        } else {
            let idx = fld(f, 0);
            assert!(r.as_ref().map(|p| p.id) == before[idx as usize - 1] && r.is_some(), "C06.RECV: receive returns the oldest queued value");
            assert!(f2 == f >> 3, "C06.RECV: the remaining values keep their order");
            assert!(qlen(e2) == qlen(e) + 1 && fld(e2, qlen(e)) == idx, "C06.RECV: the slot becomes free again");
            assert!((*cell_ptr(idx)).is_none(), "C07.TAKE: the value is moved out of the slot (it cannot be obtained twice)");
            let mut i = 0;
            while i < 5 {
                if i as u16 + 1 != idx {
                    assert!((*cell_ptr(i as u16 + 1)).as_ref().map(|p| p.id) == before[i], "C06.RECV: no other slot is touched");
                }
                i += 1;
            }
            assert!(NDROPS == d0, "C07.NO-EARLY-DROP: receive drops nothing; the caller owns the value");
            kani::cover!(qlen(f) == 5, "C06.cover: recv from a full channel");
        }
        std::mem::forget(r);
    }
    std::mem::forget(ch);
}

// C07.DROP-CHANNEL - dropping the channel drops every value still inside exactly once
#[kani::proof]
#[kani::unwind(7)]
fn c07_drop_channel() {
    let ch = new_raw();
    let mut expect = 0;
    unsafe {
        arbitrary_channel(&ch);
        let mut i = 1;
        while i <= 5 {
            if (*cell_ptr(i)).is_some() {
                expect += 1;
            }
            i += 1;
        }
        CHAN = ptr::null();
        let d0 = NDROPS;
        drop(ch);
        assert!(NDROPS == d0 + expect, "C07.DROP-CHANNEL: dropping the channel drops each value still stored exactly once (no leak, no double drop)");
    }
}

// =============================================================================================
// Rely/guarantee runs of the real send / recv under arbitrary interference at every access.
macro_rules! rg_harness {
    ($name:ident, $budget:expr, $unwind:expr, $body:expr) => {
        #[kani::proof]
        #[kani::unwind($unwind)]
        #[kani::stub(core::sync::atomic::Atomic::<u16>::load, u16_load)]
        #[kani::stub(core::sync::atomic::Atomic::<u16>::compare_exchange_weak, u16_cas_weak)]
        #[kani::stub(core::sync::atomic::Atomic::<u16>::compare_exchange, u16_cas_strong)]
        #[kani::stub(core::sync::atomic::Atomic::<u16>::store, u16_store)]
        #[kani::stub(core::sync::atomic::Atomic::<u16>::swap, u16_swap)]
        #[kani::stub(core::cell::UnsafeCell::<T>::get, cell_get)]
        fn $name() {
            let ch = new_raw();
            unsafe {
                arbitrary_channel(&ch);
                FAIL_BUDGET = $budget;
                ENV_ON = $budget > 0;
                let f: fn(&Channel<P>) = $body;
                f(&ch);
                ENV_ON = false;
            }
            std::mem::forget(ch);
        }
    };
}

unsafe fn rg_send(ch: &Channel<P>) {
    let id: u8 = kani::any();
    WATCH = id;
    let d0 = NDROPS;
    ch.send(P { id });
    // ---- postconditions over the ghost trace of this call ----
    assert!(MINE == 0, "C08.NO-LEAK-INDEX: when send returns it holds no slot index (every index taken was published again)");
    if PUSHED_FULL != 0 {
        assert!(POPS == 1 && PUSHES == 1, "C06.ATOMIC: a send that takes effect is one pop from `empty` and one push to `full`");
        assert!(LOADS == 2 && CASES == 2 + FAILS, "C08.RETRY-ONLY-ON-CAS-FAIL: each queue operation is one load plus one CAS per attempt; it retries only after a failed CAS and never waits");
        assert!(CELL_ACCESSES == 1, "C07.OWN-CELL: send writes exactly one cell");
        assert!(NDROPS == d0, "C07.NO-EARLY-DROP: a successful send drops nothing");
        kani::cover!(FAIL_BUDGET == 0 || FAILS > 0, "C08.cover: send succeeded (after interference when the environment is on)");
    } else {
        assert!(POPS == 0 && PUSHES == 0 && CELL_ACCESSES == 0, "C06.ATOMIC: a discarded send has no effect on the channel");
        assert!(LAST_SEEN_E != 0xffff && qlen(LAST_SEEN_E) == 0, "C06.FULL-ONLY-WHEN-5: send gives up only after it observed the free-slot queue empty (all five slots queued or in flight at that moment)");
        assert!(LOADS == 1 && CASES == FAILS, "C08.RETRY-ONLY-ON-CAS-FAIL: a discarded send stops at once; it does not wait for a slot");
        assert!(NDROPS == d0 + 1 && WATCH_DROPS >= 1, "C07.DROP-ONCE: the discarded value is dropped exactly once");
        kani::cover!(true, "C08.cover: send discarded");
    }
}
unsafe fn rg_recv(ch: &Channel<P>) {
    let d0 = NDROPS;
    let r = ch.recv();
    assert!(MINE == 0, "C08.NO-LEAK-INDEX: when recv returns it holds no slot index");
    if r.is_some() {
        assert!(POPPED_FULL != 0 && POPS == 1 && PUSHES == 1, "C06.ATOMIC: a receive that returns a value is one pop from `full` and one push to `empty`");
        assert!(LOADS == 2 && CASES == 2 + FAILS, "C08.RETRY-ONLY-ON-CAS-FAIL: each queue operation is one load plus one CAS per attempt; no waiting");
        assert!(CELL_ACCESSES == 1, "C07.OWN-CELL: recv accesses exactly one cell");
        kani::cover!(FAIL_BUDGET == 0 || FAILS > 0, "C08.cover: recv succeeded (after interference when the environment is on)");
    } else {
        assert!(POPS == 0 && PUSHES == 0 && CELL_ACCESSES == 0, "C06.ATOMIC: an empty receive has no effect");
        assert!(LAST_SEEN_F != 0xffff && qlen(LAST_SEEN_F) == 0, "C06.EMPTY-ONLY-WHEN-EMPTY: recv reports empty only after it observed the queue of full slots empty");
        assert!(LOADS == 1 && CASES == FAILS, "C08.RETRY-ONLY-ON-CAS-FAIL: an empty receive stops at once");
        kani::cover!(true, "C08.cover: recv empty");
    }
    assert!(NDROPS == d0, "C07.NO-EARLY-DROP: receive drops nothing");
    std::mem::forget(r);
}
fn rg_send_fn(ch: &Channel<P>) {
    unsafe { rg_send(ch) }
}
fn rg_recv_fn(ch: &Channel<P>) {
    unsafe { rg_recv(ch) }
}

// frozen environment: complete (every loop runs exactly once; unwinding assertions on)
rg_harness!(c08_frozen_send, 0, 7, rg_send_fn);
rg_harness!(c08_frozen_recv, 0, 7, rg_recv_fn);
// interference at every access, at most K failed CAS per call
rg_harness!(c08_rg_send_k2, 2, 7, rg_send_fn);
rg_harness!(c08_rg_recv_k2, 2, 7, rg_recv_fn);
rg_harness!(c08_rg_send_k4, 4, 8, rg_send_fn);
rg_harness!(c08_rg_recv_k4, 4, 8, rg_recv_fn);

// C07.SENDSYNC - the unsafe impls keep their `T: Send` bound (compile-time)
fn assert_send<T: Send>() {}
fn assert_sync<T: Sync>() {}
#[kani::proof]
fn c07_send_sync_bounds() {
    assert_send::<Channel<u8>>();
    assert_sync::<Channel<u8>>();
    // Channel<T> must NOT be Send/Sync for a T that is not Send
    trait AmbiguousIfSend<A> {
        fn some_item() {}
    }
    impl<T: ?Sized> AmbiguousIfSend<()> for T {}
    impl<T: ?Sized + Send> AmbiguousIfSend<u8> for T {}
    <Channel<*const u8> as AmbiguousIfSend<_>>::some_item();
    assert!(true, "C07.SENDSYNC: Channel<T> is Send/Sync only for T: Send (checked by the type checker)");
}
