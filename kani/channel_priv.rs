// Contracts that call the PRIVATE helpers of src/low_level/channel.rs directly (get, set, enqueue,
// dequeue). Injected as a second child module next to verif_kani (whose spec functions it reuses).
#![allow(dead_code, unused_imports)]
use super::verif_kani::{fld, member, qlen, wf};
use super::*;
use std::sync::atomic::{AtomicU16, Ordering};

// =============================================================================================
// C06.BITS - field algebra of get/set, all inputs (loop-free, complete)
#[kani::proof]
fn c06_bits() {
    let n: u16 = kani::any();
    let i: u16 = kani::any();
    let j: u16 = kani::any();
    let v: u16 = kani::any();
    kani::assume(i < 5 && j < 5 && v <= 7);
    assert!(get(n, i) == fld(n, i), "C06.BITS: get reads field idx (3 bits at 3*idx), also for positions 3-4");
    let m = set(n, i, v);
    assert!(fld(m, i) == v, "C06.BITS: set writes field idx");
    assert!(i == j || fld(m, j) == fld(n, j), "C06.BITS: set leaves every other field alone");
    assert!((m & 0x8000) == (n & 0x8000), "C06.BITS: set leaves the unused top bit alone");
}

// C06.DEQ / C06.ENQ - sequential contracts over the abstract queue, every well-formed word
#[kani::proof]
#[kani::unwind(7)]
fn c06_seq_dequeue() {
    let w: u16 = kani::any();
    kani::assume(wf(w));
    let q = AtomicU16::new(w);
    let r = dequeue(&q);
    let w2 = q.load(Ordering::SeqCst);
    if qlen(w) == 0 {
        assert!(r.is_none() && w2 == w, "C06.DEQ: dequeue reports empty exactly for the empty queue and changes nothing");
    } else {
        assert!(r == Some(fld(w, 0)), "C06.DEQ: dequeue returns the front element");
        assert!(w2 == w >> 3 && wf(w2) && qlen(w2) == qlen(w) - 1, "C06.DEQ: the rest of the queue moves up unchanged (pop-front)");
    }
    kani::cover!(qlen(w) == 5, "C06.cover: dequeue from a full queue");
    kani::cover!(qlen(w) == 0, "C06.cover: dequeue from an empty queue");
}
#[kani::proof]
#[kani::unwind(7)]
fn c06_seq_enqueue() {
    let w: u16 = kani::any();
    let v: u16 = kani::any();
    kani::assume(wf(w) && qlen(w) < 5 && v >= 1 && v <= 5 && !member(w, v));
    let q = AtomicU16::new(w);
    enqueue(&q, v);
    let w2 = q.load(Ordering::SeqCst);
    let n = qlen(w);
    assert!(wf(w2) && qlen(w2) == n + 1 && fld(w2, n) == v, "C06.ENQ: enqueue appends at the back");
    assert!(w2 == (w | (v << (3 * n))), "C06.ENQ: and leaves the elements in front untouched (push-back), also at positions 3-4");
    kani::cover!(n == 4, "C06.cover: enqueue into the last position");
}

