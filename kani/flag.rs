// Contracts for src/flag.rs. Injected as `mod verif_kani` under cfg(kani); `super::*` are the real
// functions. Properties: C15 (flags, conditional shutdown), C16.COND (conditional default).
#![allow(dead_code, static_mut_refs, unused_imports)]
use super::*;
use std::sync::atomic::{AtomicBool, AtomicUsize, Ordering};
use std::sync::Arc;

#[path = "libc_model.rs"]
mod lm;

// Assumed contract of the registry entry point as seen from flag.rs: the action is kept and run once
// per delivery (C02). The stub *is* two deliveries of the closure the real registration code built,
// with the application free to write anything to the flag in between (BETWEEN hook).
static mut BETWEEN: Option<fn()> = None;
static mut AFTER_EACH: Option<fn(usize)> = None;
static mut REGISTERED_SIGNAL: libc::c_int = 0;
static mut REGISTER_CALLS: usize = 0;

pub unsafe fn register_stub<F>(signal: libc::c_int, action: F) -> Result<crate::SigId, std::io::Error>
where
    F: Fn() + Sync + Send + 'static,
{
    REGISTER_CALLS += 1;
    REGISTERED_SIGNAL = signal;
    action();
    if let Some(f) = AFTER_EACH {
        f(0);
    }
    if let Some(f) = BETWEEN {
        f();
    }
    action();
    if let Some(f) = AFTER_EACH {
        f(1);
    }
    if kani::any() {
        Ok(std::mem::zeroed())
    } else {
        Err(std::io::Error::from_raw_os_error(libc::EINVAL))
    }
}

static mut FLAG_B: Option<Arc<AtomicBool>> = None;
static mut FLAG_U: Option<Arc<AtomicUsize>> = None;
static mut VALUE: usize = 0;

fn havoc_bool() {
    unsafe { FLAG_B.as_ref().unwrap().store(kani::any(), Ordering::SeqCst) }
}
fn check_bool(_n: usize) {
    unsafe {
        assert!(FLAG_B.as_ref().unwrap().load(Ordering::SeqCst), "C15.SET: after a delivery returns the flag holds true, whatever was written before");
    }
}

#[kani::proof]
#[kani::stub(signal_hook_registry::register, register_stub)]
fn c15_flag_set() {
    lm::link();
    let flag = Arc::new(AtomicBool::new(kani::any()));
    unsafe {
        FLAG_B = Some(Arc::clone(&flag));
        BETWEEN = Some(havoc_bool);
        AFTER_EACH = Some(check_bool);
    }
    let sig: libc::c_int = kani::any();
    let _ = register(sig, flag);
    unsafe {
        assert!(REGISTER_CALLS == 1 && REGISTERED_SIGNAL == sig, "C15.SET-SIG: the action is registered once, for the requested signal");
    }
    assert!(lm::tlen() == 0, "C15.SET-PURE: the flag action makes no system call");
    kani::cover!(true, "C15.cover: flag harness completes");
}

fn havoc_usize() {
    unsafe { FLAG_U.as_ref().unwrap().store(kani::any(), Ordering::SeqCst) }
}
fn check_usize(_n: usize) {
    unsafe {
        assert!(FLAG_U.as_ref().unwrap().load(Ordering::SeqCst) == VALUE, "C15.VALUE: after a delivery returns the flag holds exactly the registered value");
    }
}

#[kani::proof]
#[kani::stub(signal_hook_registry::register, register_stub)]
fn c15_flag_usize() {
    lm::link();
    let flag = Arc::new(AtomicUsize::new(kani::any()));
    let value: usize = kani::any();
    unsafe {
        FLAG_U = Some(Arc::clone(&flag));
        VALUE = value;
        BETWEEN = Some(havoc_usize);
        AFTER_EACH = Some(check_usize);
    }
    let sig: libc::c_int = kani::any();
    let _ = register_usize(sig, flag, value);
    unsafe {
        assert!(REGISTER_CALLS == 1 && REGISTERED_SIGNAL == sig, "C15.SET-SIG: the action is registered once, for the requested signal");
    }
    kani::cover!(true, "C15.cover: usize harness completes");
}

// ---- conditional shutdown -----------------------------------------------------------------
static mut COND: Option<Arc<AtomicBool>> = None;
static mut STATUS: libc::c_int = 0;

fn on_exit(status: libc::c_int) {
    unsafe {
        assert!(COND.as_ref().unwrap().load(Ordering::SeqCst), "C15.EXIT-IFF: the process is terminated only if the condition is true at that moment");
        assert!(status == STATUS, "C15.STATUS: terminated with exactly the requested exit status");
        assert!(lm::tlen() == 1 && lm::at(0).kind == lm::EV_EXIT_U, "C15.ONLY-EXIT: _exit is the first and only system call of the delivery");
    }
    kani::cover!(true, "C15.cover: _exit reached");
}
fn on_exit_hooks(_status: libc::c_int) {
    assert!(false, "C15.UNDERSCORE: exit() (which runs exit-time hooks) is never called");
}
fn on_abort() {
    assert!(false, "C15.UNDERSCORE: abort() is never called by conditional shutdown");
}
fn returned(_n: usize) {
    unsafe {
        assert!(!COND.as_ref().unwrap().load(Ordering::SeqCst), "C15.EXIT-IFF: a delivery returns only if the condition was false");
        assert!(lm::tlen() == 0, "C15.NOOP: with the condition false the delivery does nothing");
    }
    kani::cover!(true, "C15.cover: delivery returns when disarmed");
}
fn havoc_cond() {
    unsafe { COND.as_ref().unwrap().store(kani::any(), Ordering::SeqCst) }
}

#[kani::proof]
#[kani::stub(signal_hook_registry::register, register_stub)]
fn c15_cond_shutdown() {
    lm::link();
    let cond = Arc::new(AtomicBool::new(kani::any()));
    let status: libc::c_int = kani::any();
    unsafe {
        COND = Some(Arc::clone(&cond));
        STATUS = status;
        lm::ON_EXIT = Some(on_exit);
        lm::ON_EXIT_HOOKS = Some(on_exit_hooks);
        lm::ON_ABORT = Some(on_abort);
        BETWEEN = Some(havoc_cond);
        AFTER_EACH = Some(returned);
    }
    let sig: libc::c_int = kani::any();
    let _ = register_conditional_shutdown(sig, status, cond);
    unsafe {
        assert!(REGISTER_CALLS == 1 && REGISTERED_SIGNAL == sig, "C15.SET-SIG: the action is registered once, for the requested signal");
    }
}

// ---- conditional default (C16.COND): emulate the default action iff the condition is true ---------
static mut EMU_CALLS: usize = 0;
static mut EMU_SIG: libc::c_int = 0;
// contract stub of low_level::emulate_default_handler (its own contract is C16's, proved in
// signal_details.rs): here only "was it invoked, and for which signal" matters
pub fn emulate_stub(signal: libc::c_int) -> Result<(), Error> {
    unsafe {
        EMU_CALLS += 1;
        EMU_SIG = signal;
    }
    Ok(())
}
static mut EXPECT_EMU: usize = 0;
fn cond_default_after(_n: usize) {
    unsafe {
        let armed = COND_AT_DELIVERY;
        if armed {
            EXPECT_EMU += 1;
        }
        assert!(EMU_CALLS == EXPECT_EMU, "C16.COND: the default action is emulated during a delivery if and only if the condition is true at that moment");
        assert!(EMU_CALLS == 0 || EMU_SIG == REGISTERED_SIGNAL, "C16.COND-SIG: and it is the default action of the very signal that was registered");
        // the application may flip the condition before the next delivery
        let v: bool = kani::any();
        COND.as_ref().unwrap().store(v, Ordering::SeqCst);
        COND_AT_DELIVERY = v;
    }
}
static mut COND_AT_DELIVERY: bool = false;

#[kani::proof]
#[kani::unwind(34)]
#[kani::stub(signal_hook_registry::register, register_stub)]
#[kani::stub(crate::low_level::signal_details::emulate_default_handler, emulate_stub)]
fn c16_cond_default() {
    lm::link();
    let v0: bool = kani::any();
    let cond = Arc::new(AtomicBool::new(v0));
    let sig: libc::c_int = kani::any();
    unsafe {
        COND = Some(Arc::clone(&cond));
        COND_AT_DELIVERY = v0;
        AFTER_EACH = Some(cond_default_after);
    }
    let r = register_conditional_default(sig, cond);
    unsafe {
        if low_level::signal_name(sig).is_none() {
            assert!(r.is_err() && REGISTER_CALLS == 0 && EMU_CALLS == 0, "C16.COND-UNKNOWN: a signal the library does not know is refused with an error before anything is registered");
            kani::cover!(true, "C16.cover: unknown signal refused");
        } else {
            assert!(REGISTER_CALLS == 1 && REGISTERED_SIGNAL == sig, "C15.SET-SIG: the action is registered once, for the requested signal");
            kani::cover!(EMU_CALLS == 2, "C16.cover: emulated on both deliveries");
            kani::cover!(EMU_CALLS == 0, "C16.cover: never emulated");
        }
    }
}
