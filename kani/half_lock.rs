// Contracts for signal-hook-registry/src/half_lock.rs (C01, C18, read-side part of C03).
// Child module of half_lock: sees the private fields and private functions.
//
// Every atomic of the half-lock goes through an environment stub that (a) appends to a ghost event
// trace and (b) lets "all other threads and nested signal handlers" have changed the reader counters
// and the generation to ANY value before the access (rely = true: the safety argument of the
// half-lock must not depend on what the counters hold). The data pointer is only ever what a writer
// stored; it is not havoc'd (its validity is the very thing C01 is about).
#![allow(dead_code, static_mut_refs, unused_imports, unused_unsafe)]
use super::*;
use std::sync::atomic::{AtomicPtr, AtomicUsize, Ordering};

#[path = "libc_model.rs"]
pub mod lm;

// ---- ghost trace ---------------------------------------------------------------------------
const GEN_LOAD: u8 = 1;
pub const GEN_ADD: u8 = 2;
const LOCK_ADD: u8 = 3; // a = slot
const LOCK_SUB: u8 = 4; // a = slot
pub const LOCK_LOAD: u8 = 5; // a = slot, b = value returned
const DATA_LOAD: u8 = 6; // b = pointer
const DATA_SWAP: u8 = 7; // a = new pointer, b = old pointer
const FREE: u8 = 8; // a = payload id
pub const YIELD: u8 = 9;
pub const SPIN: u8 = 10;
const OTHER: u8 = 11; // an atomic that is not part of the half-lock under test

#[derive(Copy, Clone)]
pub struct Ev {
    pub k: u8,
    pub a: usize,
    pub b: usize,
    pub seqcst: bool,
    pub rel: bool, // ordering includes Release
}
pub const CAP: usize = 24;
pub static mut TR: [Ev; CAP] = [Ev { k: 0, a: 0, b: 0, seqcst: false, rel: false }; CAP];
pub static mut TN: usize = 0;
static mut CNT: [usize; 12] = [0; 12];
static mut FIRST: [usize; 12] = [usize::MAX; 12];
pub unsafe fn ev(k: u8, a: usize, b: usize, o: Option<Ordering>) {
    assert!(TN < CAP, "ghost trace capacity (harness bug, not a property)");
    TR[TN] = Ev { k, a, b, seqcst: matches!(o, Some(Ordering::SeqCst)), rel: matches!(o, Some(Ordering::SeqCst) | Some(Ordering::AcqRel) | Some(Ordering::Release)) };
    if CNT[k as usize] == 0 {
        FIRST[k as usize] = TN;
    }
    CNT[k as usize] += 1;
    TN += 1;
}
pub unsafe fn reset_trace() {
    TN = 0;
    CNT = [0; 12];
    FIRST = [usize::MAX; 12];
}
pub unsafe fn count(k: u8) -> usize {
    CNT[k as usize]
}
pub unsafe fn first(k: u8) -> usize {
    FIRST[k as usize]
}

// ---- the half-lock under test ----------------------------------------------------------------
static mut GEN_ADDR: usize = 0;
static mut LOCK_ADDR: [usize; 2] = [0; 2];
static mut DATA_ADDR: usize = 0;
pub static mut ENV_ON: bool = false;
// environment budget: how many lock loads may still answer "non-zero" (readers still inside)
pub static mut NONZERO_BUDGET: usize = 0;
pub static mut ZERO_SEEN_AFTER_SWAP: [bool; 2] = [false; 2];

pub unsafe fn track<T>(hl: &HalfLock<T>) {
    GEN_ADDR = &hl.generation as *const AtomicUsize as usize;
    LOCK_ADDR = [&hl.lock[0] as *const AtomicUsize as usize, &hl.lock[1] as *const AtomicUsize as usize];
    DATA_ADDR = &hl.data as *const AtomicPtr<T> as usize;
}
unsafe fn rawu(a: &AtomicUsize) -> *mut usize {
    a as *const AtomicUsize as *mut usize
}
unsafe fn slot_of(a: &AtomicUsize) -> Option<usize> {
    let p = a as *const AtomicUsize as usize;
    if p == LOCK_ADDR[0] {
        Some(0)
    } else if p == LOCK_ADDR[1] {
        Some(1)
    } else {
        None
    }
}

// ---- environment stubs (ledger A7) ------------------------------------------------------------
pub fn usize_load(a: &AtomicUsize, o: Ordering) -> usize {
    unsafe {
        let p = a as *const AtomicUsize as usize;
        if p == GEN_ADDR {
            if ENV_ON {
                // GEN_BUDGET bounds how often a writer flips the generation during the call (usize::MAX: unbounded)
                if GEN_BUDGET == usize::MAX {
                    *rawu(a) = kani::any();
                } else if GEN_BUDGET > 0 {
                    let v: usize = kani::any();
                    if v != *rawu(a) {
                        GEN_BUDGET -= 1;
                    }
                    *rawu(a) = v;
                }
            }
            ev(GEN_LOAD, 0, *rawu(a), Some(o));
        } else if let Some(s) = slot_of(a) {
            if ENV_ON {
                let v: usize = kani::any();
                if NONZERO_BUDGET == 0 {
                    kani::assume(v == 0);
                } else if v != 0 {
                    NONZERO_BUDGET -= 1;
                }
                *rawu(a) = v;
            }
            let v = *rawu(a);
            if v == 0 && count(DATA_SWAP) + SWAP_ASSUMED > 0 {
                ZERO_SEEN_AFTER_SWAP[s] = true;
            }
            ev(LOCK_LOAD, s, v, Some(o));
        } else {
            ev(OTHER, p, 0, Some(o));
        }
        *rawu(a)
    }
}
pub static mut GEN_BUDGET: usize = usize::MAX;
pub static mut SWAP_ASSUMED: usize = 0; // write_barrier harness: the swap happened before entry

pub fn usize_fetch_add(a: &AtomicUsize, v: usize, o: Ordering) -> usize {
    unsafe {
        let p = a as *const AtomicUsize as usize;
        if p == GEN_ADDR {
            if ENV_ON {
                *rawu(a) = kani::any();
            }
            ev(GEN_ADD, v, 0, Some(o));
        } else if let Some(s) = slot_of(a) {
            if ENV_ON {
                *rawu(a) = kani::any();
            }
            ev(LOCK_ADD, s, v, Some(o));
        } else {
            ev(OTHER, p, 0, Some(o));
        }
        let old = *rawu(a);
        *rawu(a) = old.wrapping_add(v);
        old
    }
}
pub fn usize_fetch_sub(a: &AtomicUsize, v: usize, o: Ordering) -> usize {
    unsafe {
        let p = a as *const AtomicUsize as usize;
        if let Some(s) = slot_of(a) {
            if ENV_ON {
                *rawu(a) = kani::any();
            }
            ev(LOCK_SUB, s, v, Some(o));
        } else {
            ev(OTHER, p, 0, Some(o));
        }
        let old = *rawu(a);
        *rawu(a) = old.wrapping_sub(v);
        old
    }
}
pub fn usize_store(a: &AtomicUsize, v: usize, _o: Ordering) {
    unsafe {
        let p = a as *const AtomicUsize as usize;
        assert!(p != GEN_ADDR && slot_of(a).is_none(), "C01.NO-STORE: reader counters and generation are only changed by fetch_add/fetch_sub (a plain store would lose concurrent readers)");
        *rawu(a) = v;
    }
}
pub fn ptr_load<T>(a: &AtomicPtr<T>, o: Ordering) -> *mut T {
    unsafe {
        let v = *(a as *const AtomicPtr<T> as *const *mut T);
        if a as *const AtomicPtr<T> as usize == DATA_ADDR {
            ev(DATA_LOAD, 0, v as usize, Some(o));
        }
        v
    }
}
pub fn ptr_swap<T>(a: &AtomicPtr<T>, new: *mut T, o: Ordering) -> *mut T {
    unsafe {
        let cell = a as *const AtomicPtr<T> as *mut *mut T;
        let old = *cell;
        *cell = new;
        if a as *const AtomicPtr<T> as usize == DATA_ADDR {
            ev(DATA_SWAP, new as usize, old as usize, Some(o));
        }
        old
    }
}
pub fn ptr_store<T>(a: &AtomicPtr<T>, new: *mut T, _o: Ordering) {
    unsafe {
        assert!(a as *const AtomicPtr<T> as usize != DATA_ADDR, "C01.S-SWAP: the snapshot pointer is replaced only by the swap in WriteGuard::store (the old pointer must be obtained atomically to be freed)");
        *(a as *const AtomicPtr<T> as *mut *mut T) = new;
    }
}
pub fn yield_stub() {
    unsafe { ev(YIELD, 0, 0, None) }
}
pub fn spin_stub() {
    unsafe { ev(SPIN, 0, 0, None) }
}

// payload with an observable destructor
pub struct Pl(pub u8);
impl Drop for Pl {
    fn drop(&mut self) {
        unsafe { ev(FREE, self.0 as usize, 0, None) }
    }
}

macro_rules! hl_stubs {
    ($(#[$m:meta])* fn $name:ident() $body:block) => {
        #[kani::proof]
        $(#[$m])*
        #[kani::stub(core::sync::atomic::Atomic::<usize>::load, usize_load)]
        #[kani::stub(core::sync::atomic::Atomic::<usize>::fetch_add, usize_fetch_add)]
        #[kani::stub(core::sync::atomic::Atomic::<usize>::fetch_sub, usize_fetch_sub)]
        #[kani::stub(core::sync::atomic::Atomic::<usize>::store, usize_store)]
        #[kani::stub(core::sync::atomic::Atomic::<*mut T>::load, ptr_load)]
        #[kani::stub(core::sync::atomic::Atomic::<*mut T>::swap, ptr_swap)]
        #[kani::stub(core::sync::atomic::Atomic::<*mut T>::store, ptr_store)]
        #[kani::stub(std::thread::yield_now, yield_stub)]
        #[kani::stub(core::sync::atomic::spin_loop_hint, spin_stub)]
        #[kani::stub(core::hint::spin_loop, spin_stub)]
        fn $name() {
            lm::link();
            $body
        }
    };
}

// =============================================================================================
// HalfLock::read + ReadGuard::drop : the reader protocol (C01.R-*, C03.READ-*)
hl_stubs! {
    #[kani::unwind(26)]
    fn c01_read() {
        let hl = HalfLock::new(Pl(1));
        unsafe {
            track(&hl);
            ENV_ON = true; // generation and counters hold anything when a delivery starts
            reset_trace();
        }
        let cur = unsafe { *(&hl.data as *const AtomicPtr<Pl> as *const *mut Pl) };
        let g = hl.read();
        unsafe {
            assert!(TN == 3 && TR[0].k == GEN_LOAD && TR[1].k == LOCK_ADD && TR[2].k == DATA_LOAD,
                "C01.R-ORDER: a reader loads the generation, then announces itself on a slot, and only THEN loads the snapshot pointer - and touches nothing else");
            assert!(TR[1].a == TR[0].b % 2 && TR[1].b == 1, "C01.R-SLOT: the reader increments, by one, the slot selected by the generation it loaded");
            // announce-then-load on the reader side against swap-then-check on the writer side is a
            // store/load (Dekker) pattern: it needs SeqCst on those four accesses. The generation load only
            // picks a slot (any ordering), the decrement only has to be a release.
            assert!(TR[1].seqcst && TR[2].seqcst, "C01.R-SEQCST: the reader's announcement (fetch_add) and its pointer load are SeqCst (store/load pattern against the writer's swap and counter loads)");
            assert!(TR[2].b == cur as usize && &*g as *const Pl == cur as *const Pl, "C01.R-PTR: the guard gives out exactly the pointer loaded after the announcement");
            assert!(g.0 == 1, "C01.R-PTR: and it dereferences to the current snapshot");
            reset_trace();
        }
        let slot = unsafe { TR[1].a };
        drop(g);
        unsafe {
            assert!(TN == 1 && TR[0].k == LOCK_SUB && TR[0].a == slot && TR[0].b == 1 && TR[0].rel,
                "C01.R-DEC: dropping the guard decrements the same slot exactly once, and does nothing else (no free, no lock, no wait)");
            assert!(count(FREE) == 0 && count(YIELD) == 0 && count(SPIN) == 0, "C03.READ-WAITFREE: the read side never frees, yields or spins");
            ENV_ON = false;
        }
        kani::cover!(slot == 1, "C01.cover: reader on slot 1");
        std::mem::forget(hl);
    }
}

// HalfLock::read + ReadGuard::drop : every announcement is taken back (C18: a leaked increment wedges every later writer)
hl_stubs! {
    #[kani::unwind(26)]
    fn c18_read_balanced() {
        let hl = HalfLock::new(Pl(1));
        unsafe {
            track(&hl);
            ENV_ON = true; // counters hold anything; a concurrent writer flips the generation at most twice during the call
            GEN_BUDGET = 2;
            reset_trace();
        }
        let g = hl.read();
        drop(g);
        unsafe {
            let mut adds = [0usize; 2];
            let mut subs = [0usize; 2];
            let mut i = 0;
            while i < TN {
                if TR[i].k == LOCK_ADD {
                    adds[TR[i].a] += TR[i].b;
                } else if TR[i].k == LOCK_SUB {
                    subs[TR[i].a] += TR[i].b;
                }
                i += 1;
            }
            assert!(adds[0] == subs[0] && adds[1] == subs[1],
                "C18.R-BALANCED: over read() and the drop of its guard, the increments and decrements of EACH reader slot cancel exactly - also when a writer flips the generation in between (a leaked increment keeps that slot non-zero forever: every later writer spins in the barrier holding the mutex)");
            kani::cover!(adds[0] + adds[1] > 0, "C18.cover: a slot was announced");
            ENV_ON = false;
            GEN_BUDGET = usize::MAX;
        }
        std::mem::forget(hl);
    }
}

// HalfLock::update_seen : the inductive step of the barrier loop, full input domain

// HalfLock::write_barrier : on return both slots were observed at zero after entry; one flip
pub unsafe fn barrier_post(k_budget: usize) {
    assert!(ZERO_SEEN_AFTER_SWAP[0] && ZERO_SEEN_AFTER_SWAP[1], "C01.W-ZERO: the barrier returns only after EACH of the two reader slots was observed at zero since the swap");
    assert!(count(GEN_ADD) == 1, "C18.FLIP-ONCE: the generation is advanced exactly once per barrier");
    let f = first(GEN_ADD);
    assert!(TR[f].a % 2 == 1, "C18.FLIP-ONCE: the flip switches new readers to the other slot (odd increment)");
    assert!(f <= 2, "C18.FLIP-BEFORE-WAIT: the flip happens before the waiting loop, so the slot being waited for only drains");
    let _ = k_budget;
}

// WriteGuard::store : swap -> barrier -> free(old), exactly once, by the writer
hl_stubs! {
    #[kani::unwind(8)]
    fn c01_store() {
        let hl = HalfLock::new(Pl(1));
        unsafe {
            track(&hl);
            reset_trace();
        }
        let mut g = hl.write();
        let old_ptr = g.data as *const Pl as usize;
        unsafe {
            ENV_ON = true;
            NONZERO_BUDGET = 2;
            reset_trace();
        }
        g.store(Pl(2));
        unsafe {
            ENV_ON = false;
            let s = first(DATA_SWAP);
            let fr = first(FREE);
            assert!(count(DATA_SWAP) == 1 && s == 0 && TR[s].b == old_ptr && TR[s].seqcst, "C01.S-ORDER: store first publishes the new snapshot with one SeqCst swap that yields the old pointer");
            assert!(count(FREE) == 1 && TR[fr].a == 1, "C01.S-FREE-ONCE: exactly the old snapshot is released, exactly once; the new one is not");
            assert!(fr == TN - 1, "C01.S-ORDER: the release is the last thing store does");
            assert!(ZERO_SEEN_AFTER_SWAP[0] && ZERO_SEEN_AFTER_SWAP[1] && count(GEN_ADD) == 1 && first(GEN_ADD) < fr,
                "C01.S-ORDER: the old snapshot is released only after the write barrier: both reader slots seen at zero after the swap");
            assert!(g.data as *const Pl as usize == TR[s].a && g.0 == 2, "C01.S-VIEW: the guard now shows the new snapshot");
            let cur = *(&hl.data as *const AtomicPtr<Pl> as *const *mut Pl);
            assert!(cur as usize == TR[s].a && (*cur).0 == 2, "C01.S-VIEW: readers arriving later get the new snapshot");
            kani::cover!(count(LOCK_LOAD) > 2, "C01.cover: store waited for readers");
        }
        std::mem::forget(g);
        std::mem::forget(hl);
    }
}

// C18.POISON-OK is NOT decidable under Kani: it builds std with panic=abort, where PoisonError is
// uninhabited and Mutex never poisons. It is decided by the native unit `native_half_lock`
// (/verif/native/half_lock_poison.rs), which executes the real HalfLock::write on a really poisoned
// mutex; the obligation has no input domain, so that single execution is the whole case analysis.

// HalfLock::write : the snapshot pointer is read under the writer mutex
hl_stubs! {
    #[kani::unwind(8)]
    fn c01_write_guard() {
        let hl = HalfLock::new(Pl(1));
        unsafe {
            track(&hl);
            reset_trace();
        }
        let g = hl.write();
        unsafe {
            assert!(count(DATA_LOAD) == 1 && count(DATA_SWAP) == 0 && count(FREE) == 0, "C01.WG-LOAD: taking the write guard loads the pointer once and changes nothing");
            assert!(hl.write_mutex.try_lock().is_err(), "C18.MUTEX-HELD: the writer mutex is held for as long as the guard lives (mutators are serialized)");
        }
        drop(g);
        assert!(hl.write_mutex.try_lock().is_ok(), "C18.MUTEX-RELEASED: dropping the guard releases the mutex (later mutators are not wedged)");
        std::mem::forget(hl);
    }
}
