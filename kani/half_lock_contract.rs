// Contract stub of WriteGuard::store for the registry-level harnesses (modular verification: the
// callers in lib.rs are checked against this contract, the body is proved against it by the
// harnesses c01_store / c01_write_barrier_* in /verif/kani/half_lock.rs):
//   - the new value becomes the snapshot every later read()/write() sees, and the guard shows it;
//   - the old snapshot is released by the writer after the grace period (not modelled here: it is
//     leaked, so nothing the callers do can depend on when it is freed).
#![allow(dead_code, static_mut_refs)]
use super::*;

pub static mut STORE_CALLS: usize = 0;
pub static mut STORE_UNDER_MUTEX: bool = true;
pub static mut STORE_ON: [usize; 4] = [0; 4]; // address of the HalfLock each store went to
pub static mut OUTER_MUTEX: *const Mutex<()> = std::ptr::null(); // the registry's data lock (set by a harness)
pub static mut OUTER_HELD_AT_STORE: [bool; 4] = [false; 4];
pub fn set_outer<T>(hl: &HalfLock<T>) {
    unsafe {
        OUTER_MUTEX = &hl.write_mutex as *const Mutex<()>;
    }
}

pub fn store_contract<'a, T: 'a>(g: &mut WriteGuard<'a, T>, val: T) {
    let new = Box::into_raw(Box::new(val));
    g.data = unsafe { &*new };
    unsafe {
        let cell = &g.lock.data as *const AtomicPtr<T> as *mut *mut T;
        *cell = new;
        if STORE_CALLS < 4 {
            STORE_ON[STORE_CALLS] = g.lock as *const HalfLock<T> as usize;
            if !OUTER_MUTEX.is_null() {
                OUTER_HELD_AT_STORE[STORE_CALLS] = (*OUTER_MUTEX).try_lock().is_err();
            }
        }
        STORE_CALLS += 1;
        if g.lock.write_mutex.try_lock().is_ok() {
            STORE_UNDER_MUTEX = false;
        }
    }
}
/// Which snapshot a HalfLock currently publishes (for view-level postconditions).
pub fn current<T>(hl: &HalfLock<T>) -> &T {
    unsafe { &**(&hl.data as *const AtomicPtr<T> as *const *mut T) }
}
pub fn mutex_free<T>(hl: &HalfLock<T>) -> bool {
    hl.write_mutex.try_lock().is_ok()
}
pub fn readers<T>(hl: &HalfLock<T>) -> usize {
    hl.lock[0].load(Ordering::SeqCst) + hl.lock[1].load(Ordering::SeqCst)
}
pub fn addr<T>(hl: &HalfLock<T>) -> usize {
    hl as *const HalfLock<T> as usize
}

// Reader sections opened on a tracked HalfLock (HalfLock::read = fetch_add on one of its counters).
// Mutators must never take the reader path: the copy they modify has to be read under the writer
// mutex, otherwise two overlapping mutators lose an update.
pub static mut HL_RANGE: [(usize, usize); 2] = [(0, 0); 2];
pub static mut READER_INCS: usize = 0;
pub fn track<T>(i: usize, hl: &HalfLock<T>) {
    unsafe {
        let a = hl as *const HalfLock<T> as usize;
        HL_RANGE[i] = (a, a + std::mem::size_of::<HalfLock<T>>());
    }
}
pub fn fetch_add_counting(a: &AtomicUsize, v: usize, _o: Ordering) -> usize {
    unsafe {
        let p = a as *const AtomicUsize as usize;
        if (p >= HL_RANGE[0].0 && p < HL_RANGE[0].1) || (p >= HL_RANGE[1].0 && p < HL_RANGE[1].1) {
            READER_INCS += 1;
        }
        let cell = a as *const AtomicUsize as *mut usize;
        let old = *cell;
        *cell = old.wrapping_add(v);
        old
    }
}

// Assumed contract of Arc (ledger A2/A3): dropping the LAST reference releases the value. None of the
// functions verified with this stub may do that (old snapshots are released by WriteGuard::store, which
// is replaced by its contract here), so the stub only counts such drops and leaks the allocation; the
// harnesses assert the count stays 0 (for the dispatcher this is C03 "never frees").
pub static mut LAST_REF_DROPS: usize = 0;
pub fn arc_drop_slow_stub<T: ?Sized, A: std::alloc::Allocator>(_a: &mut std::sync::Arc<T, A>) {
    unsafe {
        LAST_REF_DROPS += 1;
    }
}
