// Contracts that call the PRIVATE helpers HalfLock::update_seen / write_barrier directly. Separate module
// (and unit) so that a change of their signatures cannot take the public-surface contracts (read, write,
// store) in half_lock.rs down with it. Reuses the environment stubs and ghost trace of verif_kani.
#![allow(dead_code, static_mut_refs, unused_imports, unused_unsafe)]
use super::verif_kani::*;
use super::*;
use std::sync::atomic::{AtomicPtr, AtomicUsize, Ordering};

macro_rules! hl_stubs {
    ($(#[$m:meta])* fn $name:ident() $body:block) => {
        #[kani::proof]
        $(#[$m])*
        #[kani::stub(core::sync::atomic::Atomic::<usize>::load, super::verif_kani::usize_load)]
        #[kani::stub(core::sync::atomic::Atomic::<usize>::fetch_add, super::verif_kani::usize_fetch_add)]
        #[kani::stub(core::sync::atomic::Atomic::<usize>::fetch_sub, super::verif_kani::usize_fetch_sub)]
        #[kani::stub(core::sync::atomic::Atomic::<usize>::store, super::verif_kani::usize_store)]
        #[kani::stub(core::sync::atomic::Atomic::<*mut T>::load, super::verif_kani::ptr_load)]
        #[kani::stub(core::sync::atomic::Atomic::<*mut T>::swap, super::verif_kani::ptr_swap)]
        #[kani::stub(core::sync::atomic::Atomic::<*mut T>::store, super::verif_kani::ptr_store)]
        #[kani::stub(std::thread::yield_now, super::verif_kani::yield_stub)]
        #[kani::stub(core::sync::atomic::spin_loop_hint, super::verif_kani::spin_stub)]
        #[kani::stub(core::hint::spin_loop, super::verif_kani::spin_stub)]
        fn $name() {
            lm::link();
            $body
        }
    };
}


hl_stubs! {
    #[kani::unwind(26)]
    fn c01_update_seen() {
        let hl = HalfLock::new(Pl(1));
        unsafe {
            track(&hl);
            ENV_ON = true;
            NONZERO_BUDGET = usize::MAX; // any answer at all
            reset_trace();
        }
        let before: [bool; 2] = [kani::any(), kani::any()];
        let mut seen = before;
        hl.update_seen(&mut seen);
        unsafe {
            // values this pass observed, by slot (1 = "not loaded")
            let mut v = [1usize, 1usize];
            let mut loaded = [false, false];
            let mut i = 0;
            while i < 2 {
                if i < TN && TR[i].k == LOCK_LOAD {
                    v[TR[i].a] = TR[i].b;
                    loaded[TR[i].a] = true;
                }
                i += 1;
            }
            assert!((before[0] || loaded[0]) && (before[1] || loaded[1]), "C01.U-STEP: one pass examines every reader slot that is not yet known drained");
            assert!(seen[0] == (before[0] || (loaded[0] && v[0] == 0)) && seen[1] == (before[1] || (loaded[1] && v[1] == 0)),
                "C18.STICKY: a slot counts as drained iff it did before or it was observed at zero in this pass (never forgotten, never invented)");
            assert!(TN == count(LOCK_LOAD) && TN <= 2 && (TN < 2 || TR[0].a != TR[1].a), "C01.U-STEP: a pass consists of at most one load per slot and nothing else");
            let mut i = 0;
            while i < 2 {
                if i < TN {
                    assert!(TR[i].seqcst, "C01.R-SEQCST: barrier loads are SeqCst");
                }
                i += 1;
            }
            ENV_ON = false;
        }
        kani::cover!(!before[0] && seen[0] && !seen[1], "C18.cover: one slot drains first");
        std::mem::forget(hl);
    }
}

hl_stubs! {
    #[kani::unwind(8)]
    fn c01_write_barrier_k3() {
        let hl = HalfLock::new(Pl(1));
        unsafe {
            track(&hl);
            ENV_ON = true;
            NONZERO_BUDGET = 3;
            SWAP_ASSUMED = 1;
            reset_trace();
        }
        hl.write_barrier();
        unsafe {
            barrier_post(3);
            kani::cover!(count(LOCK_LOAD) > 4, "C01.cover: barrier had to wait");
            kani::cover!(count(YIELD) + count(SPIN) > 0, "C01.cover: barrier backed off");
            ENV_ON = false;
        }
        std::mem::forget(hl);
    }
}

hl_stubs! {
    #[kani::unwind(4)]
    fn c18_quiescent() {
        let hl = HalfLock::new(Pl(1));
        unsafe {
            track(&hl);
            ENV_ON = true;
            NONZERO_BUDGET = 0; // no delivery in flight, none arrives
            SWAP_ASSUMED = 1;
            reset_trace();
        }
        hl.write_barrier();
        unsafe {
            barrier_post(0);
            assert!(count(LOCK_LOAD) == 2 && count(YIELD) == 0 && count(SPIN) == 0, "C18.QUIESCENT: with no delivery in flight the barrier completes on its own in one pass, without waiting for anyone");
            ENV_ON = false;
        }
        std::mem::forget(hl);
    }
}
