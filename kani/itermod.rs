// Contracts for src/iterator/mod.rs (front-end of C09/C11): SignalsInfo::has_signals, wait, Forever::next.
#![allow(dead_code, static_mut_refs, unused_imports, unused_unsafe)]
use super::*;
use std::os::unix::io::FromRawFd;

#[path = "libc_model.rs"]
mod lm;

const RFD: i32 = 40;

// has_signals: one blocking read of one byte; retried only when interrupted (EINTR)
static mut READS: usize = 0;
static mut EINTR_BUDGET: usize = 0;
fn on_recv() {
    unsafe {
        READS += 1;
    }
}

#[kani::proof]
#[kani::unwind(5)]
fn c09_has_signals() {
    lm::link();
    let mut s = unsafe { UnixStream::from_raw_fd(RFD) };
    unsafe {
        lm::RECV_BUDGET = 3;
        lm::ON_RECV = Some(on_recv);
        lm::reset();
    }
    let r = SignalsInfo::<SignalOnly>::has_signals(&mut s);
    unsafe {
        let n = lm::tlen();
        assert!(n >= 1, "C09.HAS-SIGNALS: the readiness check reads the self-pipe");
        let last = lm::at(n - 1);
        assert!(last.kind == lm::EV_RECV && last.a == RFD as i64 && last.b == 1 && (last.c & libc::MSG_DONTWAIT as i64) == 0,
            "C09.HAS-SIGNALS: it is a blocking read of one byte from the read end (this is where wait()/forever() sleep)");
        // every read but the last was interrupted
        let mut i = 0;
        while i < 3 {
            if i + 1 < n {
                assert!(lm::at(i).r == -1, "C09.HAS-SIGNALS: the read is repeated only after it failed");
            }
            i += 1;
        }
        match r {
            Ok(b) => assert!(last.r >= 0 && b == (last.r > 0), "C09.HAS-SIGNALS: 'signals available' is reported exactly when a byte was read; end-of-file gives 'nothing'"),
            Err(ref e) => assert!(last.r == -1 && e.kind() != ErrorKind::Interrupted, "C09.HAS-SIGNALS: errors other than EINTR are passed on; EINTR never is"),
        }
        kani::cover!(n == 2, "C09.cover: one interrupted read, then a result");
    }
    std::mem::forget(r);
    std::mem::forget(s);
}

// SignalsInfo::wait and Forever::next are four-arm matches over poll_pending / poll_signal (contracts in
// backend.rs) with has_signals (above) as the callback. They cannot be run as harnesses of their own:
// constructing a SignalsInfo goes through SignalDelivery::with_pipe -> Handle::add_signal, which needs
// the build without -Z restrict-vtable (Kani crash), and without that flag the dyn calls make the run
// intractable (> 20 min). Their composition is by reading (listed in the trusted base of C09/C11).
