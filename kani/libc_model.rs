// Assumed contracts of the libc functions signal-hook calls (assumption ledger A4), written as Kani
// models, plus the ghost event trace that postconditions are stated over.
//
// `#[kani::stub]` is not applied to foreign items, so the foreign symbols are defined in
// /verif/kani/libc_shim.c (linked with `-Z c-ffi --c-lib`); every shim only forwards to the
// `shv_m_*` function below, so the contracts live here, in Rust, where `kani::any`, reachability
// checks and `kani::cover!` are available. A harness must call `lm::link()` first so that the model
// functions are part of the verified program.
#![allow(dead_code, static_mut_refs, non_upper_case_globals)]

use libc::{c_int, c_void};

pub const EV_SIGACTION: u8 = 1; // a=sig b=act!=NULL c=old!=NULL d=handler e=flags
pub const EV_RAISE: u8 = 2; // a=sig
pub const EV_ABORT: u8 = 3;
pub const EV_EXIT_U: u8 = 4; // _exit a=status
pub const EV_EXIT: u8 = 5; // exit  a=status
pub const EV_SEND: u8 = 6; // a=fd b=len c=flags
pub const EV_WRITE: u8 = 7; // a=fd b=len
pub const EV_RECV: u8 = 8; // a=fd b=len c=flags d=returned
pub const EV_CLOSE: u8 = 9; // a=fd
pub const EV_FCNTL: u8 = 10; // a=fd b=cmd c=arg d=returned
pub const EV_SIGEMPTYSET: u8 = 11;
pub const EV_SIGADDSET: u8 = 12; // a=sig
pub const EV_SIGPROCMASK: u8 = 13; // a=how b=set!=NULL c=old!=NULL
pub const EV_ERRNO: u8 = 14; // errno was read (only logged when LOG_ERRNO)
pub const EV_USER: u8 = 32; // harness-defined events start here

#[derive(Copy, Clone)]
pub struct Ev {
    pub kind: u8,
    pub a: i64,
    pub b: i64,
    pub c: i64,
    pub d: i64,
    pub e: i64,
    pub r: i64, // value the model returned
}
pub const NO_EV: Ev = Ev { kind: 0, a: 0, b: 0, c: 0, d: 0, e: 0, r: 0 };
pub const TRACE_CAP: usize = 12;
pub static mut TRACE: [Ev; TRACE_CAP] = [NO_EV; TRACE_CAP];
pub static mut TLEN: usize = 0;
// set by a model function that does not return (abort/_exit/exit): the path ends there.
pub static mut ERRNO: c_int = 0;

pub fn ev(kind: u8, a: i64, b: i64, c: i64, d: i64, e: i64) {
    unsafe {
        assert!(TLEN < TRACE_CAP, "ghost trace capacity (harness bug, not a property)");
        TRACE[TLEN] = Ev { kind, a, b, c, d, e, r: 0 };
        TLEN += 1;
    }
}
pub fn ret(r: i64) {
    unsafe {
        TRACE[TLEN - 1].r = r;
    }
}
pub fn tlen() -> usize {
    unsafe { TLEN }
}
pub fn at(i: usize) -> Ev {
    unsafe { TRACE[i] }
}
pub fn reset() {
    unsafe {
        TLEN = 0;
    }
}
pub fn count(kind: u8) -> usize {
    let mut n = 0;
    let mut i = 0;
    while i < TRACE_CAP {
        if i < tlen() && at(i).kind == kind {
            n += 1;
        }
        i += 1;
    }
    n
}

// ---- harness-settable expectations for the functions that end the path ----------------------
pub static mut EXIT_ALLOWED: bool = false;
pub static mut EXIT_STATUS: c_int = 0;
pub static mut ABORT_ALLOWED: bool = false;
// what sigaction reports as the previous disposition (havoc'd by the harness)
pub static mut OLD_HANDLER: usize = 0;
pub static mut OLD_FLAGS: c_int = 0;
// forced return values (None = nondeterministic within the documented range)
pub static mut SIGACTION_FAIL_FROM: usize = usize::MAX; // n-th sigaction call onwards may fail
pub static mut N_SIGACTION: usize = 0;

#[no_mangle]
pub extern "C" fn shv_m__exit(status: c_int) -> c_int {
    ev(EV_EXIT_U, status as i64, 0, 0, 0, 0);
    unsafe {
        if let Some(f) = ON_EXIT {
            f(status);
        }
    }
    0 // the shim assumes(false) after this: _exit does not return
}
#[no_mangle]
pub extern "C" fn shv_m_exit(status: c_int) -> c_int {
    ev(EV_EXIT, status as i64, 0, 0, 0, 0);
    unsafe {
        if let Some(f) = ON_EXIT_HOOKS {
            f(status);
        }
    }
    0
}
#[no_mangle]
pub extern "C" fn shv_m_abort() -> c_int {
    ev(EV_ABORT, 0, 0, 0, 0, 0);
    unsafe {
        if let Some(f) = ON_ABORT {
            f();
        }
    }
    0
}
// Postconditions "at the point of no return" are supplied by the harness as callbacks, so that they
// are ordinary Rust assertions (with Kani's reachability checks) evaluated before the path ends.
pub static mut ON_EXIT: Option<fn(c_int)> = None;
pub static mut ON_EXIT_HOOKS: Option<fn(c_int)> = None;
pub static mut ON_ABORT: Option<fn()> = None;

#[no_mangle]
pub extern "C" fn shv_m_raise(sig: c_int) -> c_int {
    ev(EV_RAISE, sig as i64, 0, 0, 0, 0);
    unsafe {
        if let Some(f) = ON_RAISE {
            f(sig);
        }
    }
    let r: c_int = kani::any();
    kani::assume(r == 0 || r == -1);
    if r == -1 {
        unsafe { ERRNO = libc::EINVAL };
    }
    ret(r as i64);
    r
}
pub static mut ON_RAISE: Option<fn(c_int)> = None;

#[no_mangle]
pub extern "C" fn shv_m_sigaction(sig: c_int, act: *const libc::sigaction, old: *mut libc::sigaction) -> c_int {
    let (h, fl) = if act.is_null() { (0usize, 0) } else { unsafe { ((*act).sa_sigaction, (*act).sa_flags) } };
    ev(EV_SIGACTION, sig as i64, !act.is_null() as i64, !old.is_null() as i64, h as i64, fl as i64);
    unsafe {
        N_SIGACTION += 1;
        // success is returned as the CONSTANT 0 while the harness does not allow failures, so that
        // error paths are pruned without the solver
        let r: c_int = if N_SIGACTION <= SIGACTION_FAIL_FROM {
            0
        } else if kani::any() {
            0
        } else {
            -1
        };
        if r == 0 && !old.is_null() {
            (*old).sa_sigaction = OLD_HANDLER;
            (*old).sa_flags = OLD_FLAGS;
        }
        if r != 0 {
            ERRNO = libc::EINVAL;
        }
        ret(r as i64);
        if r == 0 {
            if let Some(f) = ON_SIGACTION_DONE {
                // kernel fact: from this instant the new disposition is in force; a harness may let a
                // signal arrive right here
                f(sig, !act.is_null());
            }
        }
        r
    }
}
pub static mut ON_SIGACTION_DONE: Option<fn(c_int, bool)> = None;

#[no_mangle]
pub extern "C" fn shv_m_sigemptyset(_set: *mut libc::sigset_t) -> c_int {
    ev(EV_SIGEMPTYSET, 0, 0, 0, 0, 0);
    0
}
#[no_mangle]
pub extern "C" fn shv_m_sigaddset(_set: *mut libc::sigset_t, sig: c_int) -> c_int {
    ev(EV_SIGADDSET, sig as i64, 0, 0, 0, 0);
    0
}
#[no_mangle]
pub extern "C" fn shv_m_sigprocmask(how: c_int, set: *const libc::sigset_t, old: *mut libc::sigset_t) -> c_int {
    ev(EV_SIGPROCMASK, how as i64, !set.is_null() as i64, !old.is_null() as i64, 0, 0);
    let r: c_int = kani::any();
    kani::assume(r == 0 || r == -1);
    ret(r as i64);
    r
}

// ---- ghost state of "the" descriptor a harness hands to the code under contract --------------
// Kernel facts the models use (ledger A5): send() on an invalid fd fails with EBADF, on a non-socket
// with ENOTSOCK; fcntl on an invalid fd fails with EBADF; F_SETFL with O_NONBLOCK makes later
// write()s non-blocking; F_SETFD does not.
pub static mut FD_MODEL: bool = false; // harness opts in
pub static mut FD: c_int = -1;
pub static mut FD_VALID: bool = true;
pub static mut FD_IS_SOCKET: bool = true;
pub static mut FD_NONBLOCK: bool = false;
pub static mut FD_CLOSED: bool = false;
pub static mut LOG_ERRNO: bool = false;

// send/write/recv: any return value the man pages allow; errno any value on failure.
pub static mut SEND_RET: Option<isize> = None;
#[no_mangle]
pub extern "C" fn shv_m_send(fd: c_int, _buf: *const c_void, len: usize, flags: c_int) -> isize {
    ev(EV_SEND, fd as i64, len as i64, flags as i64, 0, 0);
    let r: isize = kani::any();
    kani::assume(r >= -1 && (r as i64) <= len as i64);
    unsafe {
        if let Some(v) = SEND_RET {
            kani::assume(r == v);
        }
        if r == -1 {
            ERRNO = kani::any();
            kani::assume(ERRNO > 0 && ERRNO < 134);
        }
        if FD_MODEL && fd == FD {
            if !FD_VALID || FD_CLOSED {
                kani::assume(r == -1 && ERRNO == libc::EBADF);
            } else if !FD_IS_SOCKET {
                kani::assume(r == -1 && ERRNO == libc::ENOTSOCK);
            } else {
                kani::assume(r != -1 || (ERRNO != libc::EBADF && ERRNO != libc::ENOTSOCK));
            }
        }
    }
    ret(r as i64);
    r
}
#[no_mangle]
pub extern "C" fn shv_m_write(fd: c_int, _buf: *const c_void, len: usize) -> isize {
    ev(EV_WRITE, fd as i64, len as i64, 0, 0, 0);
    let r: isize = kani::any();
    kani::assume(r >= -1 && (r as i64) <= len as i64);
    unsafe {
        if r == -1 {
            ERRNO = kani::any();
            kani::assume(ERRNO > 0 && ERRNO < 134);
        }
    }
    ret(r as i64);
    r
}
// number of further recv calls that may still return data (models a finite amount buffered)
pub static mut RECV_BUDGET: usize = 0;
pub static mut ON_RECV: Option<fn()> = None;
#[no_mangle]
pub extern "C" fn shv_m_recv(fd: c_int, _buf: *mut c_void, len: usize, flags: c_int) -> isize {
    unsafe {
        if let Some(f) = ON_RECV {
            f();
        }
        if RECV_BUDGET == 0 {
            // nothing (more) buffered. Returned as the CONSTANT 0 so that the model checker sees a
            // drain loop terminate without the solver (callers here only test `> 0`; a -1/EAGAIN
            // answer is covered while the budget is positive).
            ev(EV_RECV, fd as i64, len as i64, flags as i64, 0, 0);
            ret(0);
            return 0;
        }
        RECV_BUDGET -= 1;
    }
    let r: isize = kani::any();
    kani::assume(r >= -1 && (r as i64) <= len as i64);
    unsafe {
        if r == -1 {
            ERRNO = kani::any();
            kani::assume(ERRNO > 0 && ERRNO < 134);
        }
    }
    ev(EV_RECV, fd as i64, len as i64, flags as i64, r as i64, 0);
    ret(r as i64);
    r
}
#[no_mangle]
pub extern "C" fn shv_m_close(fd: c_int) -> c_int {
    ev(EV_CLOSE, fd as i64, 0, 0, 0, 0);
    let r: c_int = kani::any();
    kani::assume(r == 0 || r == -1);
    unsafe {
        if FD_MODEL && fd == FD {
            FD_CLOSED = true;
        }
    }
    ret(r as i64);
    r
}
pub static mut FCNTL_GETFL: c_int = 0;
#[no_mangle]
pub extern "C" fn shv_m_fcntl(fd: c_int, cmd: c_int, arg: c_int) -> c_int {
    let r: c_int = kani::any();
    unsafe {
        if cmd == libc::F_GETFL {
            kani::assume(r == -1 || r == FCNTL_GETFL);
        } else if cmd == libc::F_GETFD {
            // descriptor flags: the descriptor may or may not already carry FD_CLOEXEC (pipe2(O_CLOEXEC), std sockets)
            kani::assume(r == -1 || r == 0 || r == libc::FD_CLOEXEC);
        } else {
            kani::assume(r == 0 || r == -1);
        }
        if r == -1 {
            ERRNO = kani::any();
            kani::assume(ERRNO > 0 && ERRNO < 134);
        }
        if FD_MODEL && fd == FD {
            if !FD_VALID || FD_CLOSED {
                kani::assume(r == -1 && ERRNO == libc::EBADF);
            } else {
                if cmd == libc::F_GETFL {
                    kani::assume(r == FCNTL_GETFL);
                }
                if cmd == libc::F_GETFD {
                    kani::assume(r != -1);
                }
                if cmd == libc::F_SETFL && r == 0 {
                    FD_NONBLOCK = (arg & libc::O_NONBLOCK) != 0;
                }
            }
        }
    }
    ev(EV_FCNTL, fd as i64, cmd as i64, arg as i64, r as i64, 0);
    ret(r as i64);
    r
}
#[no_mangle]
pub extern "C" fn shv_m_errno_location() -> *mut c_int {
    unsafe {
        if LOG_ERRNO {
            ev(EV_ERRNO, ERRNO as i64, 0, 0, 0, 0);
        }
        &mut ERRNO as *mut c_int
    }
}

/// Makes every model function part of the program Kani verifies (it only compiles what the harness
/// reaches). The comparison is on function addresses and is trivially true.
pub fn link() {
    // loop-free on purpose (harnesses choose their own unwinding bounds)
    kani::assume(shv_m__exit as *const () as usize != 0);
    kani::assume(shv_m_exit as *const () as usize != 0);
    kani::assume(shv_m_abort as *const () as usize != 0);
    kani::assume(shv_m_raise as *const () as usize != 0);
    kani::assume(shv_m_sigaction as *const () as usize != 0);
    kani::assume(shv_m_sigemptyset as *const () as usize != 0);
    kani::assume(shv_m_sigaddset as *const () as usize != 0);
    kani::assume(shv_m_sigprocmask as *const () as usize != 0);
    kani::assume(shv_m_send as *const () as usize != 0);
    kani::assume(shv_m_write as *const () as usize != 0);
    kani::assume(shv_m_recv as *const () as usize != 0);
    kani::assume(shv_m_close as *const () as usize != 0);
    kani::assume(shv_m_fcntl as *const () as usize != 0);
    kani::assume(shv_m_errno_location as *const () as usize != 0);
}
