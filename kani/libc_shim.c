/* Foreign symbols of libc that signal-hook calls, defined for the verifier only (-Z c-ffi --c-lib).
 * Each one forwards to its Rust model `shv_m_*` in /verif/kani/libc_model.rs, where the assumed
 * contract is written. Functions that do not return end the path with assume(0) AFTER the model
 * (and the harness' point-of-no-return postconditions) ran. */
#include <stddef.h>
struct Never {};
long shv_m_send(int, const void *, size_t, int);
long shv_m_write(int, const void *, size_t);
long shv_m_recv(int, void *, size_t, int);
int shv_m__exit(int); int shv_m_exit(int); int shv_m_abort(void); int shv_m_raise(int);
int shv_m_sigaction(int, const void *, void *);
int shv_m_sigemptyset(void *); int shv_m_sigaddset(void *, int);
int shv_m_sigprocmask(int, const void *, void *);
int shv_m_close(int); int shv_m_fcntl(int, int, int);
int *shv_m_errno_location(void);

struct Never _exit(int status) { shv_m__exit(status); __CPROVER_assume(0); }
struct Never exit(int status) { shv_m_exit(status); __CPROVER_assume(0); }
void abort(void) { shv_m_abort(); __CPROVER_assume(0); }
int raise(int sig) { return shv_m_raise(sig); }
int sigaction(int sig, const void *act, void *old) { return shv_m_sigaction(sig, act, old); }
int sigemptyset(void *set) { return shv_m_sigemptyset(set); }
int sigaddset(void *set, int sig) { return shv_m_sigaddset(set, sig); }
int sigprocmask(int how, const void *set, void *old) { return shv_m_sigprocmask(how, set, old); }
long send(int fd, const void *buf, size_t len, int flags) { return shv_m_send(fd, buf, len, flags); }
long write(int fd, const void *buf, size_t len) { return shv_m_write(fd, buf, len); }
long recv(int fd, void *buf, size_t len, int flags) { return shv_m_recv(fd, buf, len, flags); }
int close(int fd) { return shv_m_close(fd); }
/* Kani drops the variadic argument of foreign calls; units that need it rewrite `libc::fcntl(` to a
 * non-variadic wrapper in the scratch copy (see props.py: rewrite). The plain symbol sees arg = 0. */
int fcntl(int fd, int cmd, ...) { return shv_m_fcntl(fd, cmd, 0); }
int *__errno_location(void) { return shv_m_errno_location(); }
