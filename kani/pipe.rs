// Contracts for src/low_level/pipe.rs (C13). `super::*` are the real functions.
#![allow(dead_code, static_mut_refs, unused_imports)]
use super::*;

#[path = "libc_model.rs"]
mod lm;

// Kani drops the variadic argument of a foreign call, so the scratch copy of pipe.rs has every
// `libc::fcntl(` rewritten to this same-arity wrapper (mechanical, counted by the driver); it calls
// the libc model of fcntl with all three arguments.
pub unsafe fn fcntl3(fd: c_int, cmd: c_int, arg: c_int) -> c_int {
    lm::shv_m_fcntl(fd, cmd, arg)
}

// ---- wake(): one non-blocking attempt to write one byte, whatever the outcome ------------------
#[kani::proof]
fn c13_wake() {
    lm::link();
    let fd: RawFd = kani::any();
    let m = if kani::any() { WakeMethod::Send } else { WakeMethod::Write };
    wake(fd, m); // model: every return value in -1..=len, every errno
    assert!(lm::tlen() == 1, "C13.ONE-ATTEMPT: a wake makes exactly one system call, whatever it returns (no retry on EAGAIN/EINTR)");
    let e = lm::at(0);
    assert!(e.a == fd as i64 && e.b == 1, "C13.ONE-BYTE: one byte is written to the registered descriptor");
    match m {
        WakeMethod::Send => assert!(e.kind == lm::EV_SEND && (e.c & libc::MSG_DONTWAIT as i64) != 0, "C13.DONTWAIT: the send variant passes MSG_DONTWAIT"),
        WakeMethod::Write => assert!(e.kind == lm::EV_WRITE, "C13.DONTWAIT: the write variant is a plain write (on a descriptor made non-blocking, see C13.DELIVERY-NONBLOCKING)"),
    }
    kani::cover!(e.r == -1, "C13.cover: failed write");
    kani::cover!(e.r == 1, "C13.cover: successful write");
}

// ---- register_raw / register -------------------------------------------------------------------
// Assumed contract of the registry entry point (A12): keeps the action, runs it per delivery, and
// drops it exactly once when it is unregistered or when the registration is refused (A3). The stub
// performs two deliveries and then drops the action.
static mut REG_CALLS: usize = 0;
static mut REG_AT: usize = 0; // trace length when register was reached
static mut REG_NONBLOCK: bool = false;
static mut DELIVERY_END: [usize; 2] = [0; 2];

pub unsafe fn register_stub<F>(_signal: c_int, action: F) -> Result<crate::SigId, Error>
where
    F: Fn() + Sync + Send + 'static,
{
    REG_CALLS += 1;
    REG_AT = lm::tlen();
    REG_NONBLOCK = lm::FD_NONBLOCK;
    if signal_hook_registry::FORBIDDEN.contains(&_signal) {
        // the registry refuses by its documented panic; while unwinding it drops the action it was
        // given (A3) - which must release the descriptor (C14: everything captured is released)
        drop(action);
        let n = lm::tlen();
        assert!(lm::count(lm::EV_CLOSE) == 1 && lm::at(n - 1).kind == lm::EV_CLOSE && lm::at(n - 1).a == lm::FD as i64,
            "C14.PIPE-RELEASE: when the registration is refused for a forbidden signal the descriptor handed over is closed exactly once");
        kani::cover!(true, "C14.cover: forbidden signal on the pipe front-end");
        kani::assume(false);
        unreachable!();
    }
    action();
    DELIVERY_END[0] = lm::tlen();
    action();
    DELIVERY_END[1] = lm::tlen();
    drop(action);
    if kani::any() {
        Ok(std::mem::zeroed())
    } else {
        Err(Error::from_raw_os_error(libc::EINVAL))
    }
}

struct Raw(RawFd);
impl IntoRawFd for Raw {
    fn into_raw_fd(self) -> RawFd {
        self.0
    }
}

fn check_delivery(i: usize, fd: RawFd) {
    unsafe {
        let e = lm::at(i);
        assert!(e.a == fd as i64 && e.b == 1, "C13.ONE-BYTE: each delivery writes one byte to the registered descriptor");
        assert!(
            (e.kind == lm::EV_SEND && (e.c & libc::MSG_DONTWAIT as i64) != 0 && lm::FD_IS_SOCKET) || (e.kind == lm::EV_WRITE && REG_NONBLOCK),
            "C13.DELIVERY-NONBLOCKING: a delivery either send()s with MSG_DONTWAIT on a socket or write()s to a descriptor on which O_NONBLOCK was set successfully before registration"
        );
    }
}

#[kani::proof]
#[kani::stub(signal_hook_registry::register, register_stub)]
fn c13_register() {
    lm::link();
    let fd: RawFd = kani::any();
    let sig: c_int = kani::any();
    unsafe {
        lm::FD_MODEL = true;
        lm::FD = fd;
        lm::FD_VALID = kani::any();
        lm::FD_IS_SOCKET = kani::any();
        lm::FCNTL_GETFL = kani::any();
        // any libc call the front-end itself may add (e.g. a sigaction query) can fail: the descriptor must be released on
        // every rejection path (seed C13e: an early `check_signal(signal)?` before the fd had an owner)
        lm::SIGACTION_FAIL_FROM = 0;
        kani::assume(lm::FCNTL_GETFL >= 0 && (lm::FCNTL_GETFL & libc::O_NONBLOCK) == 0);
    }
    let res = if kani::any() { register(sig, Raw(fd)) } else { register_raw(sig, fd) };
    unsafe {
        let n = lm::tlen();
        if !lm::FD_VALID {
            assert!(REG_CALLS == 0 && res.is_err(), "C13.REJECT-INVALID: an invalid descriptor is rejected with an error before anything is registered");
            kani::cover!(true, "C13.cover: invalid descriptor");
            return;
        }
        // the descriptor is closed exactly once, by the time the action is gone / the registration failed
        assert!(lm::count(lm::EV_CLOSE) == 1 && lm::at(n - 1).kind == lm::EV_CLOSE && lm::at(n - 1).a == fd as i64,
            "C13.CLOSE-ONCE: the descriptor is closed exactly once, when the action is dropped or the registration is rejected, and never used afterwards");
        if REG_CALLS == 0 {
            assert!(res.is_err(), "C13.CLOSE-ON-ERR: if the descriptor cannot be made non-blocking an error is returned");
            assert!(lm::count(lm::EV_WRITE) == 0, "C13.CLOSE-ON-ERR: nothing is written when registration is refused");
            kani::cover!(true, "C13.cover: fcntl failure path");
            return;
        }
        assert!(REG_CALLS == 1, "C13.REGISTER-ONCE: one registration");
        // two deliveries, one system call each
        assert!(DELIVERY_END[0] == REG_AT + 1 && DELIVERY_END[1] == REG_AT + 2 && n == REG_AT + 3,
            "C13.ONE-ATTEMPT: each delivery makes exactly one system call; dropping the action only closes");
        check_delivery(REG_AT, fd);
        check_delivery(REG_AT + 1, fd);
        kani::cover!(lm::at(REG_AT).kind == lm::EV_SEND, "C13.cover: socket registered, send used");
        kani::cover!(lm::at(REG_AT).kind == lm::EV_WRITE, "C13.cover: pipe registered, write used");
    }
}

