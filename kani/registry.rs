// Contracts for signal-hook-registry/src/lib.rs (C02, C03 dispatcher, C04, C05, registry part of
// C14). Child module of the crate root: sees `handler`, `Prev`, `Slot`, `SignalData`, `GlobalData`,
// `register_*_impl`, private fields.
//
// Whole-function runs over std's HashMap are out of the model checker's reach (probed: minutes /
// gigabytes for a one-entry map), so the driver rewrites, in the scratch copy only, the two `use` lines
//     use std::collections::hash_map::Entry;          -> use verif_kani::Entry;
//     use std::collections::{BTreeMap, HashMap};      -> use std::collections::BTreeMap; use verif_kani::SmallMap as HashMap;
// i.e. the *type* of `SignalData::signals` becomes the vector-backed map below with the same API
// surface. Everything else - every executable line of lib.rs and half_lock.rs - is the real code.
// The assumption this introduces is exactly ledger entry A2 "HashMap behaves as a map".
#![allow(dead_code, static_mut_refs, unused_imports, unused_unsafe)]
use super::*;
use std::sync::atomic::{AtomicBool, AtomicPtr, AtomicUsize, Ordering};

#[path = "/verif/kani/libc_model.rs"]
mod lm;

// ---- the map stand-in ------------------------------------------------------------------------
#[derive(Clone)]
pub struct SmallMap<K, V> {
    items: Vec<(K, V)>,
}
impl<K: PartialEq + Copy, V> SmallMap<K, V> {
    pub fn new() -> Self {
        SmallMap { items: Vec::new() }
    }
    fn pos(&self, k: &K) -> Option<usize> {
        let mut i = 0;
        while i < self.items.len() {
            if self.items[i].0 == *k {
                return Some(i);
            }
            i += 1;
        }
        None
    }
    pub fn get(&self, k: &K) -> Option<&V> {
        match self.pos(k) {
            Some(i) => Some(&self.items[i].1),
            None => None,
        }
    }
    pub fn get_mut(&mut self, k: &K) -> Option<&mut V> {
        match self.pos(k) {
            Some(i) => Some(&mut self.items[i].1),
            None => None,
        }
    }
    pub fn entry(&mut self, k: K) -> Entry<'_, K, V> {
        match self.pos(&k) {
            Some(i) => Entry::Occupied(Occupied { map: self, i }),
            None => Entry::Vacant(Vacant { map: self, k }),
        }
    }
    pub fn len(&self) -> usize {
        self.items.len()
    }
}
pub enum Entry<'a, K, V> {
    Occupied(Occupied<'a, K, V>),
    Vacant(Vacant<'a, K, V>),
}
pub struct Occupied<'a, K, V> {
    map: &'a mut SmallMap<K, V>,
    i: usize,
}
impl<'a, K, V> Occupied<'a, K, V> {
    pub fn get_mut(&mut self) -> &mut V {
        &mut self.map.items[self.i].1
    }
}
pub struct Vacant<'a, K, V> {
    map: &'a mut SmallMap<K, V>,
    k: K,
}
impl<'a, K, V> Vacant<'a, K, V> {
    pub fn insert(self, v: V) -> &'a mut V {
        self.map.items.push((self.k, v));
        let n = self.map.items.len();
        &mut self.map.items[n - 1].1
    }
}

// ---- ghost log of what actions / previous handlers ran ------------------------------------------
const LOGCAP: usize = 8;
static mut LOG: [u8; LOGCAP] = [0; LOGCAP];
static mut LOGN: usize = 0;
fn log(tag: u8) {
    unsafe {
        assert!(LOGN < LOGCAP, "ghost log capacity (harness bug)");
        LOG[LOGN] = tag;
        LOGN += 1;
    }
}
const PREV1: u8 = 101; // one-argument previous handler ran
const PREV3: u8 = 103; // three-argument previous handler ran
static mut PREV_SIG: c_int = 0;
static mut PREV_INFO: usize = 0;
static mut PREV_CTX: usize = 0;
extern "C" fn prev_one(sig: c_int) {
    unsafe {
        PREV_SIG = sig;
    }
    log(PREV1);
}
extern "C" fn prev_three(sig: c_int, info: *mut siginfo_t, ctx: *mut c_void) {
    unsafe {
        PREV_SIG = sig;
        PREV_INFO = info as usize;
        PREV_CTX = ctx as usize;
    }
    log(PREV3);
}

// =============================================================================================
// C04.EXEC : Prev::execute dispatches on the disposition kind and SA_SIGINFO, same arguments
#[kani::proof]
fn c04_prev_execute() {
    let mut sa: libc::sigaction = unsafe { std::mem::zeroed() };
    let kind: u8 = kani::any();
    kani::assume(kind < 5);
    sa.sa_sigaction = match kind {
        0 => libc::SIG_DFL,
        1 => libc::SIG_IGN,
        2 => 0,
        3 => prev_one as usize,
        _ => prev_three as usize,
    };
    let other_flags: c_int = kani::any();
    sa.sa_flags = if kind == 4 { other_flags | libc::SA_SIGINFO } else { other_flags & !libc::SA_SIGINFO };
    let registered_for: c_int = kani::any();
    let p = Prev { signal: registered_for, info: sa };
    let sig: c_int = kani::any();
    let mut info: siginfo_t = unsafe { std::mem::zeroed() };
    let mut ctx = 0u8;
    let ip = &mut info as *mut siginfo_t;
    let cp = &mut ctx as *mut u8 as *mut c_void;
    unsafe { p.execute(sig, ip, cp) };
    unsafe {
        match kind {
            0 | 1 | 2 => assert!(LOGN == 0, "C04.EXEC-NONE: default / ignore dispositions are not called"),
            3 => assert!(LOGN == 1 && LOG[0] == PREV1 && PREV_SIG == sig, "C04.EXEC-ONE: a plain handler is called exactly once with the signal number"),
            _ => assert!(LOGN == 1 && LOG[0] == PREV3 && PREV_SIG == sig && PREV_INFO == ip as usize && PREV_CTX == cp as usize,
                "C04.EXEC-THREE: a siginfo handler is called exactly once with the kernel's signal, info and context pointers unchanged"),
        }
    }
    kani::cover!(kind == 4, "C04.cover: siginfo handler");
    kani::cover!(kind == 3, "C04.cover: plain handler");
}

// =============================================================================================
// Registry-level harnesses. Common set-up: fresh globals, libc model for sigaction.
pub fn fixed_random_state() -> std::collections::hash_map::RandomState {
    unsafe { std::mem::zeroed() }
}

static mut ENSURE_SEEN_SIG_OK: bool = true;
static mut CUR_SIG: c_int = 0;
static mut ENSURE_CALLS: usize = 0;

// the actions: append their tag to the log
fn act(tag: u8) -> impl Fn(&siginfo_t) + Send + Sync + 'static {
    move |_info: &siginfo_t| log(tag)
}
unsafe fn deliver(sig: c_int) {
    let mut info: siginfo_t = std::mem::zeroed();
    info.si_signo = sig;
    let mut ctx = 0u8;
    LOGN = 0;
    handler(sig, &mut info as *mut siginfo_t, &mut ctx as *mut u8 as *mut c_void);
}
unsafe fn log_is(expect: &[u8]) -> bool {
    if LOGN != expect.len() {
        return false;
    }
    let mut i = 0;
    let mut ok = true;
    while i < LOGCAP {
        if i < expect.len() && LOG[i] != expect[i] {
            ok = false;
        }
        i += 1;
    }
    ok
}
unsafe fn setup_old(handler_kind: u8) {
    // what the kernel reports as the previous disposition of every signal
    lm::OLD_HANDLER = match handler_kind {
        0 => libc::SIG_DFL,
        1 => libc::SIG_IGN,
        3 => prev_one as usize,
        _ => prev_three as usize,
    };
    lm::OLD_FLAGS = if handler_kind == 4 { libc::SA_SIGINFO } else { 0 };
}

// C05 / C02 / C01(lib.rs part): a bounded-shape history through the REAL mutators and dispatcher.
// Two signals A != B (symbolic), up to three actions, symbolic choice of which id is removed.
#[kani::proof]
#[kani::unwind(12)]
fn c05_history() {
    lm::link();
    let a: c_int = kani::any();
    let b: c_int = kani::any();
    kani::assume(a != b && !FORBIDDEN.contains(&a) && !FORBIDDEN.contains(&b));
    unsafe {
        setup_old(0);
        let i1 = register_sigaction(a, act(1)).unwrap();
        let i2 = register_sigaction(b, act(2)).unwrap();
        let i3 = register_sigaction(a, act(3)).unwrap();
        assert!(i1 != i2 && i1 != i3 && i2 != i3 && i1.action < i3.action && i2.action < i3.action && i1.action < i2.action,
            "C05.ID-FRESH: every registration yields an id never handed out before, increasing in registration order");
        deliver(a);
        assert!(log_is(&[1, 3]), "C02.ORDER: a delivery runs exactly the actions of its own signal, each once, in registration order");
        deliver(b);
        assert!(log_is(&[2]), "C02.ONLY-SIG: actions of other signals are never run");
        // remove one of them (symbolic choice), stale and foreign ids included
        let which: u8 = kani::any();
        kani::assume(which < 3);
        let victim = if which == 0 { i1 } else if which == 1 { i2 } else { i3 };
        assert!(unregister(victim), "C05.UNREG-LIVE: unregister(id) returns true for an action that is still registered");
        assert!(!unregister(victim), "C05.UNREG-STALE: and false once it was removed (stale id)");
        let foreign = SigId { signal: if kani::any() { a } else { b }, action: ActionId(kani::any()) };
        kani::assume(foreign != i1 && foreign != i2 && foreign != i3);
        assert!(!unregister(foreign), "C05.UNREG-FOREIGN: ids that were never handed out for that signal are refused and change nothing");
        deliver(a);
        assert!(log_is(if which == 0 { &[3] } else if which == 2 { &[1] } else { &[1, 3] }), "C05.REMOVE-ONLY-IT: removal of one action never changes what the other actions do");
        deliver(b);
        assert!(log_is(if which == 1 { &[] } else { &[2] }), "C05.REMOVE-ONLY-IT: nor what other signals do");
        // a later registration still gets a fresh id
        let i4 = register_sigaction(b, act(4)).unwrap();
        assert!(i4.action > i3.action && i4 != victim, "C05.ID-FRESH: ids are not reused after removals");
        deliver(b);
        assert!(log_is(if which == 1 { &[4] } else { &[2, 4] }), "C02.ORDER: new actions run after the older ones");
        // the handler was installed exactly once per signal and never uninstalled
        assert!(lm::count(lm::EV_SIGACTION) == 4, "C05.INSTALL-ONCE: the library installs its handler once per signal (detect + install) and never touches the disposition again, even with zero actions left");
    }
}

// C05.UNREG-SIGNAL : unregister_signal removes all actions of one signal, nothing else
#[kani::proof]
#[kani::unwind(12)]
fn c05_unregister_signal() {
    lm::link();
    let a: c_int = kani::any();
    let b: c_int = kani::any();
    kani::assume(a != b && !FORBIDDEN.contains(&a) && !FORBIDDEN.contains(&b));
    unsafe {
        setup_old(0);
        let _i1 = register_sigaction(a, act(1)).unwrap();
        let i2 = register_sigaction(b, act(2)).unwrap();
        let i3 = register_sigaction(a, act(3)).unwrap();
        #[allow(deprecated)]
        {
            assert!(unregister_signal(a), "C05.UNREG-SIGNAL: unregister_signal reports true when the signal had actions");
            assert!(!unregister_signal(a), "C05.UNREG-SIGNAL: and false when it has none left");
        }
        assert!(!unregister(i3), "C05.UNREG-STALE: ids of actions removed by unregister_signal are stale");
        deliver(a);
        assert!(log_is(&[]), "C05.UNREG-SIGNAL: no action of that signal runs any more");
        deliver(b);
        assert!(log_is(&[2]), "C05.REMOVE-ONLY-IT: other signals are unaffected");
        assert!(unregister(i2), "C05.UNREG-LIVE: other signals' ids stay valid");
        let i5 = register_sigaction(a, act(5)).unwrap();
        assert!(i5.action > i3.action, "C05.ID-FRESH: fresh id after unregister_signal");
        deliver(a);
        assert!(log_is(&[5]), "C05.REUSE-SLOT: the signal can be used again; its slot (and installed handler) was kept");
        assert!(lm::count(lm::EV_SIGACTION) == 4, "C05.INSTALL-ONCE: no further sigaction call");
    }
}

// C05.FLAGS / C04.PREV-FROM-SWAP : Slot::new installs {handler, SA_RESTART|SA_SIGINFO, empty mask}
#[kani::proof]
fn c05_slot_new() {
    lm::link();
    let sig: c_int = kani::any();
    unsafe {
        setup_old(kani::any::<u8>() % 5);
        lm::SIGACTION_FAIL_FROM = 0; // the installing call may fail
        let r = Slot::new(sig);
        assert!(lm::tlen() == 1, "C05.INSTALL-ONCE: Slot::new is exactly one sigaction call");
        let e = lm::at(0);
        assert!(e.kind == lm::EV_SIGACTION && e.a == sig as i64 && e.b == 1 && e.c == 1, "C05.FLAGS: it installs a new action for the requested signal and asks for the old one");
        assert!(e.d == handler as usize as i64, "C05.HANDLER-ADDR: the installed handler is the library's dispatcher");
        assert!(e.e == (libc::SA_RESTART | libc::SA_SIGINFO) as i64, "C05.FLAGS: with system-call restart and kernel info enabled (SA_RESTART|SA_SIGINFO), nothing else");
        match r {
            Ok(slot) => {
                assert!(e.r == 0, "C14.ERR-PROPAGATE: success only if sigaction succeeded");
                assert!(slot.prev.signal == sig && slot.prev.info.sa_sigaction == lm::OLD_HANDLER && slot.prev.info.sa_flags == lm::OLD_FLAGS,
                    "C04.PREV-FROM-SWAP: the previous disposition remembered in the slot is the one the installing sigaction call returned");
                assert!(slot.actions.is_empty(), "C05.FLAGS: a new slot has no actions");
            }
            Err(_) => assert!(e.r != 0, "C14.ERR-PROPAGATE: an error is returned exactly when the OS refused"),
        }
    }
}

// C14.CHECK-FIRST : checked entry points refuse forbidden signals before touching anything;
// unchecked ones go on to the OS. GlobalData::ensure is the first thing any registration touches.
pub fn ensure_stub() -> &'static GlobalData {
    unsafe {
        ENSURE_CALLS += 1;
        assert!(!(CHECKED && FORBIDDEN.contains(&CUR_SIG)), "C14.CHECK-FIRST: a checked entry point panics for a forbidden signal before any global state is touched");
        kani::cover!(!CHECKED && FORBIDDEN.contains(&CUR_SIG), "C14.cover: unchecked entry point passes a forbidden signal on");
        kani::cover!(CHECKED, "C14.cover: checked entry point passes an allowed signal on");
        kani::assume(false); // the rest of the registration is covered by the other harnesses
        unreachable!()
    }
}
static mut CHECKED: bool = true;
#[kani::proof]
#[kani::unwind(7)]
#[kani::stub(GlobalData::ensure, ensure_stub)]
fn c14_registry_check_first() {
    let sig: c_int = kani::any();
    let which: u8 = kani::any();
    kani::assume(which < 4);
    unsafe {
        CUR_SIG = sig;
        CHECKED = which < 2;
        let r = match which {
            0 => register(sig, || ()).map(|_| ()),
            1 => register_sigaction(sig, |_| ()).map(|_| ()),
            2 => register_signal_unchecked(sig, || ()).map(|_| ()),
            _ => register_unchecked(sig, |_| ()).map(|_| ()),
        };
        let _ = r;
        // returning here means the call neither panicked nor reached the registry
        assert!(false, "C14.REFUSE-OR-REGISTER: an entry point either refuses by panic or goes on to register (it never returns silently)");
    }
}
#[kani::proof]
fn c14_forbidden_list() {
    let s: c_int = kani::any();
    let want = s == libc::SIGKILL || s == libc::SIGSTOP || s == libc::SIGILL || s == libc::SIGFPE || s == libc::SIGSEGV;
    assert!(FORBIDDEN.contains(&s) == want, "C14.LIST: the forbidden signals are exactly KILL, STOP, ILL, FPE, SEGV");
}

// C14.ERR-NO-PUBLISH : when the OS refuses the signal, an error is returned and nothing is published
#[kani::proof]
#[kani::unwind(12)]
fn c14_err_no_publish() {
    lm::link();
    let a: c_int = kani::any();
    let bad: c_int = kani::any();
    kani::assume(a != bad && !FORBIDDEN.contains(&a) && !FORBIDDEN.contains(&bad));
    unsafe {
        setup_old(0);
        let i1 = register_sigaction(a, act(1)).unwrap();
        // from now on the OS refuses (either the query or the installing call)
        lm::SIGACTION_FAIL_FROM = if kani::any() { 2 } else { 3 };
        let n0 = lm::N_SIGACTION;
        let r = register_sigaction(bad, act(9));
        if lm::at(lm::tlen() - 1).r != 0 {
            assert!(r.is_err(), "C14.ERR-PROPAGATE: an OS error is passed on to the caller");
            deliver(bad);
            assert!(log_is(&[]), "C14.ERR-NO-PUBLISH: a refused registration publishes nothing: its action never runs");
            deliver(a);
            assert!(log_is(&[1]), "C14.ERR-NO-PUBLISH: and the registry still works as before");
            let i2 = register_sigaction(a, act(2)).unwrap();
            assert!(i2.action > i1.action, "C14.STAYS-USABLE: the library stays fully usable after a refused registration");
            kani::cover!(lm::N_SIGACTION == n0 + 1, "C14.cover: the query was refused");
            kani::cover!(lm::N_SIGACTION == n0 + 2, "C14.cover: the installing call was refused");
        }
    }
}

// C04 : chaining from the very first instant. A pre-existing handler, a first registration, and a
// delivery at each point where the library's handler is already (or may be) the disposition.
static mut DELIVER_AT_INSTALL: bool = false;
static mut INSTALL_SIG: c_int = 0;
static mut AT_INSTALL_OK: bool = false;
fn on_sigaction_installed() {}

#[kani::proof]
#[kani::unwind(12)]
fn c04_chain() {
    lm::link();
    let a: c_int = kani::any();
    let b: c_int = kani::any();
    kani::assume(a != b && !FORBIDDEN.contains(&a) && !FORBIDDEN.contains(&b));
    let kind: u8 = kani::any();
    kani::assume(kind == 0 || kind == 1 || kind == 3 || kind == 4);
    unsafe {
        setup_old(kind);
        let _ib = register_sigaction(b, act(7)).unwrap(); // another signal was registered earlier
        let _ia = register_sigaction(a, act(1)).unwrap();
        let _ia2 = register_sigaction(a, act(2)).unwrap();
        deliver(a);
        match kind {
            0 | 1 => assert!(log_is(&[1, 2]), "C04.EXEC-NONE: default/ignore previous dispositions are not called"),
            3 => assert!(log_is(&[PREV1, 1, 2]), "C04.FIRST: the previous handler runs exactly once, before every registered action"),
            _ => assert!(log_is(&[PREV3, 1, 2]), "C04.FIRST: the previous (siginfo) handler runs exactly once, before every registered action"),
        }
        if kind >= 3 {
            assert!(PREV_SIG == a, "C04.EXEC-ONE: it receives the delivered signal number");
        }
        // with zero actions left the previous handler is still chained
        #[allow(deprecated)]
        {
            unregister_signal(a);
        }
        deliver(a);
        assert!(log_is(if kind == 3 { &[PREV1] } else if kind == 4 { &[PREV3] } else { &[] }), "C04.STILL-CHAINED: with no action left the previous handler is still called once per delivery");
    }
}

// C04.FALLBACK : the window between installing the handler and publishing the slot. The libc model
// delivers the signal synchronously from inside the installing sigaction() call.
static mut WINDOW_SIG: c_int = 0;
static mut WINDOW_ARMED: bool = false;
static mut WINDOW_LOG_OK: u8 = 0; // 1 = previous handler ran exactly once and nothing else
fn window_delivery(sig: c_int, act_set: bool) {
    unsafe {
        if WINDOW_ARMED && act_set && sig == WINDOW_SIG {
            WINDOW_ARMED = false;
            let saved = LOGN;
            deliver(sig);
            WINDOW_LOG_OK = if log_is(&[PREV3]) && PREV_SIG == sig { 1 } else { 2 };
            LOGN = saved;
        }
    }
}
#[kani::proof]
#[kani::unwind(12)]
fn c04_window() {
    lm::link();
    let a: c_int = kani::any();
    let b: c_int = kani::any();
    kani::assume(a != b && !FORBIDDEN.contains(&a) && !FORBIDDEN.contains(&b));
    unsafe {
        setup_old(4);
        let _ib = register_sigaction(b, act(7)).unwrap(); // leaves a stale fallback for b behind
        WINDOW_SIG = a;
        WINDOW_ARMED = true;
        lm::ON_SIGACTION_DONE = Some(window_delivery);
        let _ia = register_sigaction(a, act(1)).unwrap();
        assert!(WINDOW_LOG_OK == 1, "C04.GAP-FREE: a delivery at the very instant the library's handler became the disposition (slot not yet published) runs the previous handler exactly once, and no action");
        // a delivery of ANOTHER signal that finds the stale fallback of `a` must not call it
        deliver(b);
        assert!(log_is(&[PREV3, 7]) && PREV_SIG == b, "C04.FALLBACK-INERT: once the slot is published the fallback is inert; other signals chain to their own previous handler");
    }
}
