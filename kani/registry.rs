// Contracts for signal-hook-registry/src/lib.rs (C02, C03 dispatcher, C04, C05, registry part of
// C14). Child module of the crate root: sees `handler`, `Prev`, `Slot`, `SignalData`, `GlobalData`,
// `register_*_impl`, private fields.
//
// Whole-function runs over std's HashMap are out of the model checker's reach (probed: minutes /
// gigabytes for a one-entry map), so the driver rewrites, in the scratch copy only, the two `use` lines
//     use std::collections::hash_map::Entry;          -> use verif_kani::Entry;
//     use std::collections::{BTreeMap, HashMap};      -> use verif_kani::OrdMap as BTreeMap; use verif_kani::SmallMap as HashMap;
// i.e. the *types* of `SignalData::signals` and `Slot::actions` become the vector-backed maps below
// with the same API surface (the second one keeps its entries sorted by key, as BTreeMap does). Everything else - every executable line of lib.rs and half_lock.rs - is the real code.
// The assumption this introduces is exactly ledger entry A2 "HashMap behaves as a map".
#![allow(dead_code, static_mut_refs, unused_imports, unused_unsafe)]
use super::*;
use std::sync::atomic::{AtomicBool, AtomicPtr, AtomicUsize, Ordering};

#[path = "libc_model.rs"]
mod lm;

// ---- the map stand-ins: fixed capacity, loops bounded by a constant -------------------------------
pub const MAP_CAP: usize = 2; // signals per harness
pub const ORD_CAP: usize = 3; // actions per signal per harness
#[derive(Clone)]
pub struct SmallMap<K, V> {
    // values are boxed so that moving/cloning the map moves pointers, not 300-byte slots (the model
    // checker's formula size is dominated by copies of large values)
    items: [Option<(K, Box<V>)>; MAP_CAP],
}
impl<K: PartialEq + Copy, V> SmallMap<K, V> {
    pub fn new() -> Self {
        SmallMap { items: [None, None] }
    }
    fn pos(&self, k: &K) -> Option<usize> {
        let mut i = 0;
        let mut r = None;
        while i < MAP_CAP {
            if let Some((kk, _)) = &self.items[i] {
                if *kk == *k && r.is_none() {
                    r = Some(i);
                }
            }
            i += 1;
        }
        r
    }
    pub fn get(&self, k: &K) -> Option<&V> {
        match self.pos(k) {
            Some(i) => self.items[i].as_ref().map(|kv| &*kv.1),
            None => None,
        }
    }
    pub fn get_mut(&mut self, k: &K) -> Option<&mut V> {
        match self.pos(k) {
            Some(i) => self.items[i].as_mut().map(|kv| &mut *kv.1),
            None => None,
        }
    }
    pub fn entry(&mut self, k: K) -> Entry<'_, K, V> {
        match self.pos(&k) {
            Some(i) => Entry::Occupied(Occupied { map: self, i }),
            None => Entry::Vacant(Vacant { map: self, k }),
        }
    }
    pub fn contains_key(&self, k: &K) -> bool {
        self.pos(k).is_some()
    }
    pub fn iter(&self) -> std::vec::IntoIter<(&K, &V)> {
        let mut v = Vec::new();
        let mut i = 0;
        while i < MAP_CAP {
            if let Some((k, val)) = &self.items[i] {
                v.push((k, &**val));
            }
            i += 1;
        }
        v.into_iter()
    }
    pub fn values(&self) -> std::vec::IntoIter<&V> {
        let mut v = Vec::new();
        let mut i = 0;
        while i < MAP_CAP {
            if let Some((_, val)) = &self.items[i] {
                v.push(&**val);
            }
            i += 1;
        }
        v.into_iter()
    }
    pub fn keys(&self) -> std::vec::IntoIter<&K> {
        let mut v = Vec::new();
        let mut i = 0;
        while i < MAP_CAP {
            if let Some((k, _)) = &self.items[i] {
                v.push(k);
            }
            i += 1;
        }
        v.into_iter()
    }
    pub fn len(&self) -> usize {
        let mut n = 0;
        let mut i = 0;
        while i < MAP_CAP {
            if self.items[i].is_some() {
                n += 1;
            }
            i += 1;
        }
        n
    }
    pub fn is_empty(&self) -> bool {
        self.len() == 0
    }
    pub fn insert(&mut self, k: K, v: V) -> Option<V> {
        match self.entry(k) {
            Entry::Occupied(mut o) => Some(std::mem::replace(o.get_mut(), v)),
            Entry::Vacant(p) => {
                p.insert(v);
                None
            }
        }
    }
}
pub enum Entry<'a, K, V> {
    Occupied(Occupied<'a, K, V>),
    Vacant(Vacant<'a, K, V>),
}
pub struct Occupied<'a, K, V> {
    map: &'a mut SmallMap<K, V>,
    i: usize,
}
impl<'a, K, V> Occupied<'a, K, V> {
    pub fn get_mut(&mut self) -> &mut V {
        &mut *self.map.items[self.i].as_mut().unwrap().1
    }
}
pub struct Vacant<'a, K, V> {
    map: &'a mut SmallMap<K, V>,
    k: K,
}
impl<'a, K, V> Vacant<'a, K, V> {
    pub fn insert(self, v: V) -> &'a mut V {
        let i = if self.map.items[0].is_none() {
            0
        } else {
            assert!(self.map.items[1].is_none(), "harness capacity: at most MAP_CAP signals (harness bug, not a property)");
            1
        };
        self.map.items[i] = Some((self.k, Box::new(v)));
        &mut *self.map.items[i].as_mut().unwrap().1
    }
}

// ordered map stand-in for BTreeMap<ActionId, Arc<Action>>: a compact prefix kept sorted by key
#[derive(Clone)]
pub struct OrdMap<K, V> {
    items: [Option<(K, V)>; ORD_CAP],
}
impl<K: Ord + Copy, V> OrdMap<K, V> {
    pub fn new() -> Self {
        OrdMap { items: [None, None, None] }
    }
    pub fn len(&self) -> usize {
        let mut n = 0;
        let mut i = 0;
        while i < ORD_CAP {
            if self.items[i].is_some() {
                n += 1;
            }
            i += 1;
        }
        n
    }
    pub fn insert(&mut self, k: K, v: V) -> Option<V> {
        // existing key: replace
        let mut i = 0;
        while i < ORD_CAP {
            if let Some((kk, vv)) = &mut self.items[i] {
                if *kk == k {
                    return Some(std::mem::replace(vv, v));
                }
            }
            i += 1;
        }
        let n = self.len();
        assert!(n < ORD_CAP, "harness capacity: at most ORD_CAP actions per signal (harness bug, not a property)");
        // position = number of smaller keys
        let mut pos = 0;
        let mut i = 0;
        while i < ORD_CAP {
            if let Some((kk, _)) = &self.items[i] {
                if *kk < k {
                    pos += 1;
                }
            }
            i += 1;
        }
        let mut j = ORD_CAP - 1;
        while j > 0 {
            if j > pos && j <= n {
                self.items[j] = self.items[j - 1].take();
            }
            j -= 1;
        }
        self.items[pos] = Some((k, v));
        None
    }
    pub fn remove(&mut self, k: &K) -> Option<V> {
        let mut found = None;
        let mut i = 0;
        while i < ORD_CAP {
            if found.is_none() {
                if let Some((kk, _)) = &self.items[i] {
                    if *kk == *k {
                        found = self.items[i].take().map(|kv| kv.1);
                    }
                }
            } else {
                // shift the rest left
                self.items[i - 1] = self.items[i].take();
            }
            i += 1;
        }
        found
    }
    pub fn values(&self) -> Values<'_, K, V> {
        Values { m: self, i: 0 }
    }
    pub fn keys(&self) -> std::vec::IntoIter<&K> {
        let mut v = Vec::new();
        let mut i = 0;
        while i < ORD_CAP {
            if let Some((k, _)) = &self.items[i] {
                v.push(k);
            }
            i += 1;
        }
        v.into_iter()
    }
    pub fn range<R: std::ops::RangeBounds<K>>(&self, r: R) -> std::vec::IntoIter<(&K, &V)> {
        let mut v = Vec::new();
        let mut i = 0;
        while i < ORD_CAP {
            if let Some((k, val)) = &self.items[i] {
                if r.contains(k) {
                    v.push((k, val));
                }
            }
            i += 1;
        }
        v.into_iter()
    }
    pub fn get(&self, k: &K) -> Option<&V> {
        let mut i = 0;
        let mut r = None;
        while i < ORD_CAP {
            if let Some((kk, v)) = &self.items[i] {
                if *kk == *k {
                    r = Some(v);
                }
            }
            i += 1;
        }
        r
    }
    pub fn contains_key(&self, k: &K) -> bool {
        let mut i = 0;
        let mut f = false;
        while i < ORD_CAP {
            if let Some((kk, _)) = &self.items[i] {
                if *kk == *k {
                    f = true;
                }
            }
            i += 1;
        }
        f
    }
    pub fn is_empty(&self) -> bool {
        self.items[0].is_none()
    }
    pub fn clear(&mut self) {
        self.items = [None, None, None];
    }
}
pub struct Values<'a, K, V> {
    m: &'a OrdMap<K, V>,
    i: usize,
}
impl<'a, K, V> Iterator for Values<'a, K, V> {
    type Item = &'a V;
    fn next(&mut self) -> Option<&'a V> {
        if self.i < ORD_CAP {
            let r = self.m.items[self.i].as_ref().map(|kv| &kv.1);
            self.i += 1;
            r
        } else {
            None
        }
    }
}

// ---- ghost log of what actions / previous handlers ran ------------------------------------------
const LOGCAP: usize = 8;
static mut LOG: [u8; LOGCAP] = [0; LOGCAP];
static mut LOGN: usize = 0;
fn log(tag: u8) {
    unsafe {
        assert!(LOGN < LOGCAP, "ghost log capacity (harness bug)");
        LOG[LOGN] = tag;
        LOGN += 1;
    }
}
const PREV1: u8 = 101; // one-argument previous handler ran
const PREV3: u8 = 103; // three-argument previous handler ran
static mut PREV_SIG: c_int = 0;
static mut PREV_INFO: usize = 0;
static mut PREV_CTX: usize = 0;
extern "C" fn prev_one(sig: c_int) {
    unsafe {
        PREV_SIG = sig;
    }
    log(PREV1);
}
extern "C" fn prev_three(sig: c_int, info: *mut siginfo_t, ctx: *mut c_void) {
    unsafe {
        PREV_SIG = sig;
        PREV_INFO = info as usize;
        PREV_CTX = ctx as usize;
    }
    log(PREV3);
}

// =============================================================================================
// C04.EXEC : Prev::execute dispatches on the disposition kind and SA_SIGINFO, same arguments
#[kani::proof]
fn c04_prev_execute() {
    let mut sa: libc::sigaction = unsafe { std::mem::zeroed() };
    // the handler word: SIG_DFL, SIG_IGN, 0, or a real function; sa_flags is ANY word the kernel may
    // hand back (it keeps the flags verbatim, so SIG_IGN / SIG_DFL may well carry SA_SIGINFO)
    let kind: u8 = kani::any();
    kani::assume(kind < 4);
    let flags: c_int = kani::any();
    let siginfo = flags & libc::SA_SIGINFO != 0;
    sa.sa_sigaction = match kind {
        0 => libc::SIG_DFL,
        1 => libc::SIG_IGN,
        2 => 0,
        _ => {
            if siginfo {
                prev_three as usize
            } else {
                prev_one as usize
            }
        }
    };
    sa.sa_flags = flags;
    let kind = if kind == 3 { if siginfo { 4 } else { 3 } } else { kind };
    let registered_for: c_int = kani::any();
    let p = Prev { signal: registered_for, info: sa };
    let sig: c_int = kani::any();
    let mut info: siginfo_t = unsafe { std::mem::zeroed() };
    let mut ctx = 0u8;
    let ip = &mut info as *mut siginfo_t;
    let cp = &mut ctx as *mut u8 as *mut c_void;
    unsafe { p.execute(sig, ip, cp) };
    unsafe {
        match kind {
            0 | 1 | 2 => assert!(LOGN == 0, "C04.EXEC-NONE: default / ignore dispositions are not called"),
            3 => assert!(LOGN == 1 && LOG[0] == PREV1 && PREV_SIG == sig, "C04.EXEC-ONE: a plain handler is called exactly once with the signal number"),
            _ => assert!(LOGN == 1 && LOG[0] == PREV3 && PREV_SIG == sig && PREV_INFO == ip as usize && PREV_CTX == cp as usize,
                "C04.EXEC-THREE: a siginfo handler is called exactly once with the kernel's signal, info and context pointers unchanged"),
        }
    }
    kani::cover!(kind == 4, "C04.cover: siginfo handler");
    kani::cover!(kind == 3, "C04.cover: plain handler");
}

// =============================================================================================
// Registry-level harnesses. Common set-up: fresh globals, libc model for sigaction.
pub fn fixed_random_state() -> std::collections::hash_map::RandomState {
    unsafe { std::mem::zeroed() }
}

static mut ENSURE_SEEN_SIG_OK: bool = true;
static mut CUR_SIG: c_int = 0;
static mut ENSURE_CALLS: usize = 0;

// the actions: append their tag to the log
fn act(tag: u8) -> impl Fn(&siginfo_t) + Send + Sync + 'static {
    move |_info: &siginfo_t| log(tag)
}
unsafe fn deliver(sig: c_int) {
    let mut info: siginfo_t = std::mem::zeroed();
    info.si_signo = sig;
    let mut ctx = 0u8;
    LOGN = 0;
    IN_DELIVERY = true;
    handler(sig, &mut info as *mut siginfo_t, &mut ctx as *mut u8 as *mut c_void);
    IN_DELIVERY = false;
}
unsafe fn log_is(expect: &[u8]) -> bool {
    if LOGN != expect.len() {
        return false;
    }
    let mut i = 0;
    let mut ok = true;
    while i < LOGCAP {
        if i < expect.len() && LOG[i] != expect[i] {
            ok = false;
        }
        i += 1;
    }
    ok
}
unsafe fn setup_old(handler_kind: u8) {
    // what the kernel reports as the previous disposition of every signal
    lm::OLD_HANDLER = match handler_kind {
        0 => libc::SIG_DFL,
        1 => libc::SIG_IGN,
        3 => prev_one as usize,
        _ => prev_three as usize,
    };
    lm::OLD_FLAGS = if handler_kind == 4 { libc::SA_SIGINFO } else { 0 };
}

// C05 / C02 / C01(lib.rs part): a bounded-shape history through the REAL mutators and dispatcher.
// Two signals A != B (symbolic), up to three actions, symbolic choice of which id is removed.

// C05.UNREG-SIGNAL : unregister_signal removes all actions of one signal, nothing else

// C05.FLAGS / C04.PREV-FROM-SWAP : Slot::new installs {handler, SA_RESTART|SA_SIGINFO, empty mask}
#[kani::proof]
#[kani::unwind(4)]
fn c05_slot_new() {
    lm::link();
    let sig: c_int = kani::any();
    unsafe {
        setup_old(kani::any::<u8>() % 5);
        lm::SIGACTION_FAIL_FROM = 0; // the installing call may fail
        let r = Slot::new(sig);
        assert!(lm::tlen() == 1, "C05.INSTALL-ONCE: Slot::new is exactly one sigaction call");
        let e = lm::at(0);
        assert!(e.kind == lm::EV_SIGACTION && e.a == sig as i64 && e.b == 1 && e.c == 1, "C05.FLAGS: it installs a new action for the requested signal and asks for the old one");
        assert!(e.d == handler as usize as i64, "C05.HANDLER-ADDR: the installed handler is the library's dispatcher");
        let want = (libc::SA_RESTART | libc::SA_SIGINFO) as i64;
        assert!(e.e & want == want, "C05.FLAGS: with system-call restart and kernel info enabled (SA_RESTART and SA_SIGINFO both set)");
        assert!(e.e & (libc::SA_RESETHAND as i64) == 0, "C05.FLAGS: and not SA_RESETHAND (the handler must stay the disposition for the rest of the process)");
        match r {
            Ok(slot) => {
                assert!(e.r == 0, "C14.ERR-PROPAGATE: success only if sigaction succeeded");
                assert!(slot.prev.signal == sig && slot.prev.info.sa_sigaction == lm::OLD_HANDLER && slot.prev.info.sa_flags == lm::OLD_FLAGS,
                    "C04.PREV-FROM-SWAP: the previous disposition remembered in the slot is the one the installing sigaction call returned");
                assert!(slot.actions.is_empty(), "C05.FLAGS: a new slot has no actions");
            }
            Err(_) => assert!(e.r != 0, "C14.ERR-PROPAGATE: an error is returned exactly when the OS refused"),
        }
    }
}

// C14.CHECK-FIRST : checked entry points refuse forbidden signals before touching anything;
// unchecked ones go on to the OS. GlobalData::ensure is the first thing any registration touches.
pub fn ensure_stub() -> &'static GlobalData {
    unsafe {
        ENSURE_CALLS += 1;
        assert!(!(CHECKED && FORBIDDEN.contains(&CUR_SIG)), "C14.CHECK-FIRST: a checked entry point panics for a forbidden signal before any global state is touched");
        kani::cover!(!CHECKED && FORBIDDEN.contains(&CUR_SIG), "C14.cover: unchecked entry point passes a forbidden signal on");
        kani::cover!(CHECKED, "C14.cover: checked entry point passes an allowed signal on");
        kani::assume(false); // the rest of the registration is covered by the other harnesses
        unreachable!()
    }
}
static mut CHECKED: bool = true;
#[kani::proof]
#[kani::unwind(10)]
#[kani::stub(GlobalData::ensure, ensure_stub)]
fn c14_registry_check_first() {
    let sig: c_int = kani::any();
    let which: u8 = kani::any();
    kani::assume(which < 4);
    unsafe {
        CUR_SIG = sig;
        CHECKED = which < 2;
        let r = match which {
            0 => register(sig, || ()).map(|_| ()),
            1 => register_sigaction(sig, |_| ()).map(|_| ()),
            2 => register_signal_unchecked(sig, || ()).map(|_| ()),
            _ => register_unchecked(sig, |_| ()).map(|_| ()),
        };
        let _ = r;
        // returning here means the call neither panicked nor reached the registry
        assert!(false, "C14.REFUSE-OR-REGISTER: an entry point either refuses by panic or goes on to register (it never returns silently)");
    }
}
#[kani::proof]
fn c14_forbidden_list() {
    let s: c_int = kani::any();
    let want = s == libc::SIGKILL || s == libc::SIGSTOP || s == libc::SIGILL || s == libc::SIGFPE || s == libc::SIGSEGV;
    assert!(FORBIDDEN.contains(&s) == want, "C14.LIST: the forbidden signals are exactly KILL, STOP, ILL, FPE, SEGV");
}

// C14.ERR-NO-PUBLISH : when the OS refuses the signal, an error is returned and nothing is published

// C04 : chaining from the very first instant. A pre-existing handler, a first registration, and a
// delivery at each point where the library's handler is already (or may be) the disposition.
static mut DELIVER_AT_INSTALL: bool = false;
static mut INSTALL_SIG: c_int = 0;
static mut AT_INSTALL_OK: bool = false;
fn on_sigaction_installed() {}


// C04.FALLBACK : the window between installing the handler and publishing the slot. The libc model
// delivers the signal synchronously from inside the installing sigaction() call.
static mut WINDOW_SIG: c_int = 0;
static mut WINDOW_ARMED: bool = false;
static mut WINDOW_LOG_OK: u8 = 0; // 1 = previous handler ran exactly once and nothing else
fn window_delivery(sig: c_int, act_set: bool) {
    unsafe {
        if WINDOW_ARMED && act_set && sig == WINDOW_SIG {
            WINDOW_ARMED = false;
            let saved = LOGN;
            deliver(sig);
            WINDOW_LOG_OK = if log_is(&[PREV3]) && PREV_SIG == sig { 1 } else { 2 };
            LOGN = saved;
        }
    }
}





// Contract of Prev::execute, used modularly by the harnesses below (proved on the real function for
// every disposition and flag word by c04_prev_execute): default/ignore => nothing; otherwise exactly
// one call of the stored handler, with (sig) or (sig, info, ctx) according to SA_SIGINFO. The call is
// recorded in the ghost log instead of being made through a function pointer (for the model checker
// an indirect call may target the library's own `handler`, which makes it explore nested deliveries
// to the unwinding bound).
pub unsafe fn prev_execute_contract(p: &Prev, sig: c_int, info: *mut siginfo_t, data: *mut c_void) {
    let f = p.info.sa_sigaction;
    if f != 0 && f != libc::SIG_DFL && f != libc::SIG_IGN {
        PREV_SIG = sig;
        if p.info.sa_flags & libc::SA_SIGINFO == 0 {
            log(PREV1);
        } else {
            PREV_INFO = info as usize;
            PREV_CTX = data as usize;
            log(PREV3);
        }
    }
}

// =============================================================================================
// Per-operation contracts from an ARBITRARY small registry state (inductive step of C05/C02):
// two signals A != B; A has up to two actions, B up to one; ids and next_id symbolic, subject to the
// representation invariant (ids strictly below next_id, increasing in registration order).
use half_lock::verif_contract as hc;

struct St {
    a: c_int,
    b: c_int,
    ida: [u128; 2],
    na: usize,
    idb: u128,
    nb: usize,
    next: u128,
}
unsafe fn arbitrary_state() -> St {
    arbitrary_state_shape(2, 1, true)
}
/// `max_a`/`max_b`: concrete caps on the number of actions; `with_b`: whether signal B has a slot.
unsafe fn arbitrary_state_shape(max_a: usize, max_b: usize, with_b: bool) -> St {
    let a: c_int = kani::any();
    let b: c_int = kani::any();
    kani::assume(a != b);
    let na: usize = kani::any();
    let nb: usize = kani::any();
    kani::assume(na <= max_a && nb <= max_b);
    let ida: [u128; 2] = [kani::any(), kani::any()];
    let idb: u128 = kani::any();
    let next: u128 = kani::any();
    kani::assume(ida[0] < ida[1] && ida[1] < next && idb < next && idb != ida[0] && idb != ida[1] && ida[0] >= 1 && idb >= 1);
    kani::assume(next < u128::MAX); // ledger A9
    let mut sd = SignalData { signals: HashMap::new(), next_id: next };
    // signal A had a real (siginfo) handler before the library took it over; B had none
    let mut old: libc::sigaction = std::mem::zeroed();
    old.sa_sigaction = prev_three as usize;
    old.sa_flags = libc::SA_SIGINFO;
    let mut sa = Slot { prev: Prev { signal: a, info: old }, actions: BTreeMap::new() };
    if na >= 1 {
        sa.actions.insert(ActionId(ida[0]), Arc::from(act(1)));
    }
    if na >= 2 {
        sa.actions.insert(ActionId(ida[1]), Arc::from(act(2)));
    }
    let mut sb = Slot { prev: Prev { signal: b, info: std::mem::zeroed() }, actions: BTreeMap::new() };
    // B's previous disposition was 'default' or 'ignore' (symbolic): neither is ever called, and neither changes what runs
    sb.prev.info.sa_sigaction = if kani::any() { libc::SIG_IGN } else { libc::SIG_DFL };
    if nb >= 1 {
        sb.actions.insert(ActionId(idb), Arc::from(act(3)));
    }
    sd.signals.insert(a, sa);
    if with_b {
        sd.signals.insert(b, sb);
    } else {
        std::mem::forget(sb);
    }
    let g = GlobalData::ensure();
    let mut w = g.data.write();
    hc::store_contract(&mut w, sd);
    drop(w);
    hc::STORE_CALLS = 0;
    hc::track(0, &g.data);
    hc::track(1, &g.race_fallback);
    hc::READER_INCS = 0;
    St { a, b, ida, na, idb, nb, next }
}
/// number of actions of `sig` in the published snapshot, and whether `id` is among them
unsafe fn view(sig: c_int) -> (bool, usize) {
    let cur = hc::current(&GlobalData::get().data);
    match cur.signals.get(&sig) {
        Some(slot) => (true, slot.actions.len()),
        None => (false, 0),
    }
}
unsafe fn has(sig: c_int, id: u128) -> bool {
    let cur = hc::current(&GlobalData::get().data);
    match cur.signals.get(&sig) {
        Some(slot) => slot.actions.contains_key(&ActionId(id)),
        None => false,
    }
}
unsafe fn quiescent() -> bool {
    let g = GlobalData::get();
    hc::mutex_free(&g.data) && hc::mutex_free(&g.race_fallback) && hc::readers(&g.data) == 0 && hc::readers(&g.race_fallback) == 0
}

#[kani::proof]
#[kani::unwind(10)]
#[kani::stub(half_lock::WriteGuard::<T>::store, half_lock::verif_contract::store_contract)]
#[kani::stub(alloc::sync::Arc::<T, A>::drop_slow, half_lock::verif_contract::arc_drop_slow_stub)]
#[kani::stub(core::sync::atomic::Atomic::<usize>::fetch_add, half_lock::verif_contract::fetch_add_counting)]
fn c05_op_unregister() {
    unsafe { op_unregister(arbitrary_state()) }
}
#[kani::proof]
#[kani::unwind(10)]
#[kani::stub(half_lock::WriteGuard::<T>::store, half_lock::verif_contract::store_contract)]
#[kani::stub(alloc::sync::Arc::<T, A>::drop_slow, half_lock::verif_contract::arc_drop_slow_stub)]
#[kani::stub(core::sync::atomic::Atomic::<usize>::fetch_add, half_lock::verif_contract::fetch_add_counting)]
fn c05_op_unregister_small() {
    unsafe { op_unregister(arbitrary_state_shape(1, 1, true)) }
}
unsafe fn op_unregister(st: St) {
    lm::link();
    lm::reset();
    {
        let s: c_int = kani::any();
        let x: u128 = kani::any();
        let live = (s == st.a && ((st.na >= 1 && x == st.ida[0]) || (st.na >= 2 && x == st.ida[1]))) || (s == st.b && st.nb >= 1 && x == st.idb);
        let r = unregister(SigId { signal: s, action: ActionId(x) });
        assert!(hc::READER_INCS == 0, "C02.COPY-UNDER-MUTEX: a mutator never takes the reader path; the snapshot it copies and modifies is read under the writer mutex (no lost update between overlapping mutators)");
        assert!(r == live, "C05.UNREG-IFF-LIVE: unregister(id) returns true exactly when that action is still registered (stale, foreign and never-issued ids: false)");
        assert!(hc::STORE_CALLS == live as usize && hc::STORE_UNDER_MUTEX, "C05.PUBLISH-IFF-CHANGED: a new snapshot is published (once, under the writer mutex) iff something was removed");
        // whole-view postcondition
        let cur = hc::current(&GlobalData::get().data);
        assert!(cur.next_id == st.next, "C05.ID-FRESH: removal never gives an id back (next_id unchanged)");
        assert!(view(st.a) == (true, st.na - (live && s == st.a) as usize) && view(st.b) == (true, st.nb - (live && s == st.b) as usize), "C05.REMOVE-ONLY-IT: exactly one action disappears, slots are never removed");
        assert!(has(st.a, st.ida[0]) == (st.na >= 1 && !(s == st.a && x == st.ida[0])), "C05.REMOVE-ONLY-IT: every other action of the same signal stays");
        assert!(has(st.a, st.ida[1]) == (st.na >= 2 && !(s == st.a && x == st.ida[1])), "C05.REMOVE-ONLY-IT: every other action of the same signal stays");
        assert!(has(st.b, st.idb) == (st.nb >= 1 && !(s == st.b && x == st.idb)), "C05.REMOVE-ONLY-IT: actions of other signals stay");
        assert!(lm::tlen() == 0, "C05.INSTALL-ONCE: removing an action never touches the process's signal dispositions (the library's handler stays installed, also with zero actions left)");
        assert!(quiescent(), "C18.MUTATOR-RELEASES: the mutator returns with every lock released and no reader section open");
        kani::cover!(live && s == st.a && x == st.ida[0], "C05.cover: remove the oldest action of a signal");
        kani::cover!(!live && s == st.a, "C05.cover: stale id on a known signal");
    }
}

unsafe fn op_unregister_signal(st: St) {
    lm::link();
    lm::reset();
    let s: c_int = kani::any();
    let had = (s == st.a && st.na >= 1) || (s == st.b && st.nb >= 1);
    #[allow(deprecated)]
    let r = unregister_signal(s);
    assert!(hc::READER_INCS == 0, "C02.COPY-UNDER-MUTEX: a mutator never takes the reader path; the snapshot it copies and modifies is read under the writer mutex (no lost update between overlapping mutators)");
    assert!(r == had, "C05.UNREG-SIGNAL: unregister_signal returns true exactly when the signal had actions");
    assert!(hc::STORE_CALLS == had as usize && hc::STORE_UNDER_MUTEX, "C05.PUBLISH-IFF-CHANGED: a new snapshot is published (once, under the writer mutex) iff something was removed");
    let cur = hc::current(&GlobalData::get().data);
    assert!(cur.next_id == st.next, "C05.ID-FRESH: removal never gives an id back (next_id unchanged)");
    assert!(view(st.a) == (true, if s == st.a { 0 } else { st.na }) && view(st.b) == (true, if s == st.b { 0 } else { st.nb }), "C05.UNREG-SIGNAL: all actions of that signal and only those are removed; slots are never removed");
    assert!(has(st.b, st.idb) == (st.nb >= 1 && s != st.b) && has(st.a, st.ida[0]) == (st.na >= 1 && s != st.a), "C05.REMOVE-ONLY-IT: actions of other signals stay");
    assert!(lm::tlen() == 0, "C05.INSTALL-ONCE: removing the actions of a signal never touches the process's signal dispositions (the library's handler stays installed with zero actions left)");
    assert!(quiescent(), "C18.MUTATOR-RELEASES: the mutator returns with every lock released and no reader section open");
    kani::cover!(had && s == st.a, "C05.cover: all actions of a signal removed at once");
}
#[kani::proof]
#[kani::unwind(10)]
#[kani::stub(half_lock::WriteGuard::<T>::store, half_lock::verif_contract::store_contract)]
#[kani::stub(alloc::sync::Arc::<T, A>::drop_slow, half_lock::verif_contract::arc_drop_slow_stub)]
#[kani::stub(core::sync::atomic::Atomic::<usize>::fetch_add, half_lock::verif_contract::fetch_add_counting)]
fn c05_op_unregister_signal() {
    unsafe { op_unregister_signal(arbitrary_state()) }
}
#[kani::proof]
#[kani::unwind(10)]
#[kani::stub(half_lock::WriteGuard::<T>::store, half_lock::verif_contract::store_contract)]
#[kani::stub(alloc::sync::Arc::<T, A>::drop_slow, half_lock::verif_contract::arc_drop_slow_stub)]
#[kani::stub(core::sync::atomic::Atomic::<usize>::fetch_add, half_lock::verif_contract::fetch_add_counting)]
fn c05_op_unregister_signal_small() {
    unsafe { op_unregister_signal(arbitrary_state_shape(1, 1, true)) }
}

// register on a signal that already has a slot: fresh id, appended last, no system call
unsafe fn op_register_occupied(st: St) {
    lm::link();
    let s: c_int = if kani::any() { st.a } else { st.b };
    kani::assume(!FORBIDDEN.contains(&s));
    lm::reset();
    let r = register_sigaction(s, act(9));
    assert!(hc::READER_INCS == 0, "C02.COPY-UNDER-MUTEX: a mutator never takes the reader path; the snapshot it copies and modifies is read under the writer mutex (no lost update between overlapping mutators)");
    assert!(r.is_ok(), "C05.REG-OK: registering on an already handled signal cannot fail");
    let id = r.unwrap();
    assert!(id.signal == s && id.action.0 == st.next, "C05.ID-FRESH: the id handed out is the snapshot's next_id - never handed out before");
    let cur = hc::current(&GlobalData::get().data);
    assert!(cur.next_id == st.next + 1, "C05.ID-FRESH: and next_id moves on by one in the published snapshot");
    assert!(hc::STORE_CALLS == 1 && hc::STORE_UNDER_MUTEX && hc::STORE_ON[0] == hc::addr(&GlobalData::get().data), "C05.PUBLISH-IFF-CHANGED: exactly one publication, of the data snapshot, under the writer mutex");
    assert!(view(st.a) == (true, st.na + (s == st.a) as usize) && view(st.b) == (true, st.nb + (s == st.b) as usize) && has(s, st.next), "C05.REG-APPEND: the new action is added to its signal and nothing else changes");
    assert!(has(st.a, st.ida[0]) == (st.na >= 1) && has(st.a, st.ida[1]) == (st.na >= 2) && has(st.b, st.idb) == (st.nb >= 1), "C05.REG-APPEND: every existing action stays");
    assert!(lm::tlen() == 0, "C05.INSTALL-ONCE: no sigaction call when the signal already has a slot (the handler installed at first registration stays)");
    // it runs last
    deliver(s);
    assert!(LOGN >= 1 && LOG[LOGN - 1] == 9, "C02.ID-MONO: the newest action runs after all older ones of its signal");
    assert!(quiescent(), "C18.MUTATOR-RELEASES: every lock released, no reader section open");
}
#[kani::proof]
#[kani::stub(Prev::execute, prev_execute_contract)]
#[kani::unwind(10)]
#[kani::stub(half_lock::WriteGuard::<T>::store, half_lock::verif_contract::store_contract)]
#[kani::stub(alloc::sync::Arc::<T, A>::drop_slow, half_lock::verif_contract::arc_drop_slow_stub)]
#[kani::stub(core::sync::atomic::Atomic::<usize>::fetch_add, half_lock::verif_contract::fetch_add_counting)]
fn c05_op_register_occupied() {
    unsafe { op_register_occupied(arbitrary_state()) }
}
#[kani::proof]
#[kani::stub(Prev::execute, prev_execute_contract)]
#[kani::unwind(10)]
#[kani::stub(half_lock::WriteGuard::<T>::store, half_lock::verif_contract::store_contract)]
#[kani::stub(alloc::sync::Arc::<T, A>::drop_slow, half_lock::verif_contract::arc_drop_slow_stub)]
#[kani::stub(core::sync::atomic::Atomic::<usize>::fetch_add, half_lock::verif_contract::fetch_add_counting)]
fn c05_op_register_occupied_small() {
    unsafe { op_register_occupied(arbitrary_state_shape(1, 0, true)) }
}

// first registration of a signal: detect -> publish fallback -> install -> publish slot
static mut NEW_SIG: c_int = 0;
static mut INSTALL_SEEN: bool = false;
fn at_sigaction(sig: c_int, act_set: bool) {
    unsafe {
        let g = GlobalData::get();
        if act_set {
            INSTALL_SEEN = true;
            assert!(sig == NEW_SIG, "C05.INSTALL-ONCE: the handler is installed for the signal being registered");
            assert!(hc::STORE_CALLS == 1 && hc::STORE_ON[0] == hc::addr(&g.race_fallback), "C04.REG-ORDER: the fallback was published before the library's handler became the disposition");
            assert!(hc::OUTER_HELD_AT_STORE[0], "C04.FALLBACK-UNDER-DATA-LOCK: the fallback is published while the registry's data lock is held, so no concurrent first registration of another signal can overwrite it before this signal's slot is published");
            let fb = hc::current(&g.race_fallback);
            assert!(match fb { Some(p) => p.signal == sig && p.info.sa_sigaction == lm::OLD_HANDLER, None => false }, "C04.REG-ORDER: and it holds this signal's previous disposition");
            assert!(!hc::mutex_free(&g.data) && hc::mutex_free(&g.race_fallback), "C18.LOCK-ORDER: the fallback lock is taken and released inside the data lock, which is still held while the handler is switched");
            assert!(hc::current(&g.data).signals.get(&sig).is_none(), "C04.REG-ORDER: the slot is published only after the handler was installed");
            // a delivery at this very instant chains to the previous handler and runs no action
            let saved = LOGN;
            LOGN = 0;
            let mut info: siginfo_t = std::mem::zeroed();
            let mut ctx = 0u8;
            handler(sig, &mut info as *mut siginfo_t, &mut ctx as *mut u8 as *mut c_void);
            assert!(LOGN == 1 && LOG[0] == PREV3 && PREV_SIG == sig, "C04.GAP-FREE: a delivery at the instant the library's handler becomes the disposition runs the previous handler exactly once and no action");
            LOGN = saved;
        } else {
            assert!(hc::STORE_CALLS == 0, "C04.REG-ORDER: the previous disposition is queried first");
        }
    }
}
#[kani::proof]
#[kani::stub(Prev::execute, prev_execute_contract)]
#[kani::unwind(10)]
#[kani::stub(half_lock::WriteGuard::<T>::store, half_lock::verif_contract::store_contract)]
#[kani::stub(alloc::sync::Arc::<T, A>::drop_slow, half_lock::verif_contract::arc_drop_slow_stub)]
fn c04_op_register_vacant() {
    lm::link();
    unsafe {
        let st = arbitrary_state_shape(1, 0, false);
        let c: c_int = kani::any();
        kani::assume(c != st.a && !FORBIDDEN.contains(&c));
        setup_old(4);
        NEW_SIG = c;
        hc::set_outer(&GlobalData::get().data);
        lm::ON_SIGACTION_DONE = Some(at_sigaction);
        lm::reset();
        let r = register_sigaction(c, act(9));
        assert!(r.is_ok() && INSTALL_SEEN, "C05.REG-OK: the first registration of a signal installs the handler and succeeds when the OS accepts it");
        let id = r.unwrap();
        assert!(id.signal == c && id.action.0 == st.next, "C05.ID-FRESH: fresh id");
        assert!(lm::tlen() == 2 && lm::at(0).b == 0 && lm::at(1).b == 1, "C05.INSTALL-ONCE: exactly two sigaction calls: query, then install");
        assert!(hc::STORE_CALLS == 2 && hc::STORE_ON[1] == hc::addr(&GlobalData::get().data), "C04.REG-ORDER: the slot is published last");
        let cur = hc::current(&GlobalData::get().data);
        assert!(cur.next_id == st.next + 1 && view(c) == (true, 1) && has(c, st.next) && view(st.a) == (true, st.na), "C05.REG-APPEND: the new slot holds exactly the new action; other signals are untouched");
        assert!(match cur.signals.get(&c) { Some(s) => s.prev.signal == c && s.prev.info.sa_sigaction == lm::OLD_HANDLER && s.prev.info.sa_flags == lm::OLD_FLAGS, None => false }, "C04.PREV-FROM-SWAP: the slot remembers the disposition returned by the installing call");
        deliver(c);
        assert!(log_is(&[PREV3, 9]), "C04.FIRST: afterwards a delivery runs the previous handler first, then the action");
        assert!(quiescent(), "C18.MUTATOR-RELEASES: every lock released, no reader section open");
    }
}

// the dispatcher, from an arbitrary state and an arbitrary fallback
static mut IN_DELIVERY: bool = false;
pub fn delivery_lock_stub<T: ?Sized>(m: &std::sync::Mutex<T>) -> std::sync::LockResult<std::sync::MutexGuard<'_, T>> {
    unsafe {
        assert!(!IN_DELIVERY, "C03.NO-LOCK: a signal delivery never acquires a lock");
    }
    match m.try_lock() {
        Ok(g) => Ok(g),
        Err(std::sync::TryLockError::Poisoned(p)) => Err(p),
        Err(std::sync::TryLockError::WouldBlock) => {
            assert!(false, "C18.NO-SELF-DEADLOCK: a mutex is never requested while this thread already holds it");
            kani::assume(false);
            unreachable!()
        }
    }
}
pub fn delivery_wait_stub() {
    unsafe {
        assert!(!IN_DELIVERY, "C03.NO-WAIT: a signal delivery never yields or spins waiting for another thread");
    }
}
#[kani::proof]
#[kani::stub(Prev::execute, prev_execute_contract)]
#[kani::unwind(10)]
#[kani::stub(half_lock::WriteGuard::<T>::store, half_lock::verif_contract::store_contract)]
#[kani::stub(alloc::sync::Arc::<T, A>::drop_slow, half_lock::verif_contract::arc_drop_slow_stub)]
#[kani::stub(std::sync::Mutex::<T>::lock, delivery_lock_stub)]
#[kani::stub(std::thread::yield_now, delivery_wait_stub)]
#[kani::stub(core::sync::atomic::spin_loop_hint, delivery_wait_stub)]
#[kani::stub(core::hint::spin_loop, delivery_wait_stub)]
#[kani::stub(core::sync::atomic::Atomic::<usize>::fetch_add, half_lock::verif_contract::fetch_add_counting)]
fn c02_op_handler() {
    lm::link();
    unsafe {
        let st = arbitrary_state();
        // previous dispositions: A had a siginfo handler, B a plain one
        // (slots are built with zeroed prev; patch them in the published snapshot)
        let g = GlobalData::get();
        let fb_sig: c_int = kani::any();
        let fb_some: bool = kani::any();
        if fb_some {
            let mut sa: libc::sigaction = std::mem::zeroed();
            sa.sa_sigaction = prev_three as usize;
            sa.sa_flags = libc::SA_SIGINFO;
            let mut w = g.race_fallback.write();
            hc::store_contract(&mut w, Some(Prev { signal: fb_sig, info: sa }));
        }
        let sig: c_int = kani::any();
        hc::READER_INCS = 0;
        deliver(sig);
        assert!(hc::READER_INCS == 2, "C02.ONE-SNAPSHOT: a delivery opens exactly one reader section on the fallback and exactly one on the registry snapshot - every action it runs comes from that one snapshot");
        if sig == st.a {
            assert!(LOGN >= 1 && LOG[0] == PREV3 && PREV_SIG == sig, "C04.FIRST: the handler that was installed before the library took the signal over runs first, exactly once - also when no action is left");
            assert!(log_is(if st.na == 0 { &[PREV3] } else if st.na == 1 { &[PREV3, 1] } else { &[PREV3, 1, 2] }), "C02.ORDER: a delivery runs exactly the actions of its signal in the one snapshot it read, each once, in id (= registration) order");
        } else if sig == st.b {
            assert!(LOGN <= 1 && (LOGN == 0 || LOG[0] == 3), "C02.ONLY-SIG: actions registered for other signals are never run");
            assert!(log_is(if st.nb == 0 { &[] } else { &[3] }), "C02.ORDER: a delivery runs exactly the actions of its signal in the one snapshot it read - whatever the signal's previous disposition was (default, ignore, handler)");
        } else if fb_some && fb_sig == sig {
            assert!(log_is(&[PREV3]) && PREV_SIG == sig, "C04.FALLBACK-ONLY-UNSLOTTED: without a slot, a matching fallback is chained to, exactly once");
        } else {
            assert!(log_is(&[]), "C04.FALLBACK-MATCH: a fallback recorded for another signal is never called; an unknown signal runs nothing");
        }
        assert!(quiescent(), "C03.READ-BALANCED: the delivery leaves both reader counts as it found them and touches no mutex");
        assert!(hc::LAST_REF_DROPS == 0, "C03.NO-FREE: a delivery never drops the last reference of an action or snapshot (so it never frees; reclamation is the writer's job after the grace period)");
        kani::cover!(sig == st.a && st.na >= 1, "C02.cover: actions of the delivered signal ran");
        kani::cover!(fb_some && fb_sig == sig && sig != st.a && sig != st.b, "C04.cover: fallback used");
    }
}

// The same dispatcher contract on the smallest interesting state (one signal, exactly one action, no fallback): cheap enough
// to finish also when the dispatcher is restructured into something the arbitrary-state harness above cannot afford
// (seed C02c: one reader section per action in a `loop`).
#[kani::proof]
#[kani::stub(Prev::execute, prev_execute_contract)]
#[kani::unwind(10)]
#[kani::stub(half_lock::WriteGuard::<T>::store, half_lock::verif_contract::store_contract)]
#[kani::stub(alloc::sync::Arc::<T, A>::drop_slow, half_lock::verif_contract::arc_drop_slow_stub)]
#[kani::stub(std::sync::Mutex::<T>::lock, delivery_lock_stub)]
#[kani::stub(std::thread::yield_now, delivery_wait_stub)]
#[kani::stub(core::sync::atomic::spin_loop_hint, delivery_wait_stub)]
#[kani::stub(core::hint::spin_loop, delivery_wait_stub)]
#[kani::stub(core::sync::atomic::Atomic::<usize>::fetch_add, half_lock::verif_contract::fetch_add_counting)]
fn c02_op_handler_tiny() {
    lm::link();
    unsafe {
        let st = arbitrary_state_shape(1, 0, false);
        kani::assume(st.na == 1);
        hc::READER_INCS = 0;
        deliver(st.a);
        assert!(hc::READER_INCS == 2, "C02.ONE-SNAPSHOT: a delivery opens exactly one reader section on the fallback and exactly one on the registry snapshot - every action it runs comes from that one snapshot");
        assert!(log_is(&[PREV3, 1]), "C02.ORDER: a delivery runs exactly the actions of its signal in the one snapshot it read, each once, in id (= registration) order");
        assert!(quiescent(), "C03.READ-BALANCED: the delivery leaves both reader counts as it found them and touches no mutex");
    }
}

// C14.ERR-NO-PUBLISH : the OS refuses the signal (query or install fails) => Err, nothing published
#[kani::proof]
#[kani::stub(Prev::execute, prev_execute_contract)]
#[kani::unwind(10)]
#[kani::stub(half_lock::WriteGuard::<T>::store, half_lock::verif_contract::store_contract)]
#[kani::stub(alloc::sync::Arc::<T, A>::drop_slow, half_lock::verif_contract::arc_drop_slow_stub)]
fn c14_op_register_refused() {
    lm::link();
    unsafe {
        let st = arbitrary_state_shape(1, 0, false);
        let c: c_int = kani::any();
        kani::assume(c != st.a && !FORBIDDEN.contains(&c));
        setup_old(0);
        lm::SIGACTION_FAIL_FROM = 0; // either sigaction call may be refused
        lm::reset();
        let r = register_sigaction(c, act(9));
        let n = lm::tlen();
        let refused = lm::at(n - 1).r != 0;
        assert!(r.is_err() == refused, "C14.ERR-PROPAGATE: registration fails exactly when the OS refused a sigaction call, and passes the error on");
        let g = GlobalData::get();
        if refused {
            let data_addr = hc::addr(&g.data);
            assert!((hc::STORE_CALLS == 0 || hc::STORE_ON[0] != data_addr) && (hc::STORE_CALLS <= 1), "C14.ERR-NO-PUBLISH: a refused registration never publishes a registry snapshot");
            let cur = hc::current(&g.data);
            assert!(cur.next_id == st.next && view(c) == (false, 0) && view(st.a) == (true, st.na), "C14.ERR-NO-PUBLISH: the registry is exactly as before (no slot, no id consumed)");
            deliver(c);
            assert!(log_is(&[]), "C14.ERR-NO-PUBLISH: the refused action never runs");
            kani::cover!(n == 1, "C14.cover: the query was refused");
            kani::cover!(n == 2, "C14.cover: the installing call was refused");
        }
        assert!(quiescent(), "C14.STAYS-USABLE: all locks are released on the error path too (the library stays usable)");
    }
}

// experiment (unit registry_real): the same per-operation contract on the REAL std maps
