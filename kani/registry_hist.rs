// History-level contracts for signal-hook-registry/src/lib.rs that use ONLY the public mutators and
// the dispatcher (register_sigaction, unregister, unregister_signal, handler): they do not name the
// container types of `Slot`/`SignalData`, so a refactoring of those containers cannot take them down
// (the per-operation contracts in registry.rs build states directly and do depend on them).
// Same modular substitutions as registry.rs: WriteGuard::store and Prev::execute by their contracts,
// std maps by the fixed-capacity stand-ins below (only if lib.rs still imports them).
#![allow(dead_code, static_mut_refs, unused_imports, unused_unsafe)]
use super::*;
use std::sync::atomic::{AtomicBool, AtomicPtr, AtomicUsize, Ordering};

#[path = "libc_model.rs"]
mod lm;
use half_lock::verif_contract as hc;

// ---- the map stand-ins: fixed capacity, loops bounded by a constant -------------------------------
pub const MAP_CAP: usize = 2; // signals per harness
pub const ORD_CAP: usize = 3; // actions per signal per harness
#[derive(Clone)]
pub struct SmallMap<K, V> {
    // values are boxed so that moving/cloning the map moves pointers, not 300-byte slots (the model
    // checker's formula size is dominated by copies of large values)
    items: [Option<(K, Box<V>)>; MAP_CAP],
}
impl<K: PartialEq + Copy, V> SmallMap<K, V> {
    pub fn new() -> Self {
        SmallMap { items: [None, None] }
    }
    fn pos(&self, k: &K) -> Option<usize> {
        let mut i = 0;
        let mut r = None;
        while i < MAP_CAP {
            if let Some((kk, _)) = &self.items[i] {
                if *kk == *k && r.is_none() {
                    r = Some(i);
                }
            }
            i += 1;
        }
        r
    }
    pub fn get(&self, k: &K) -> Option<&V> {
        match self.pos(k) {
            Some(i) => self.items[i].as_ref().map(|kv| &*kv.1),
            None => None,
        }
    }
    pub fn get_mut(&mut self, k: &K) -> Option<&mut V> {
        match self.pos(k) {
            Some(i) => self.items[i].as_mut().map(|kv| &mut *kv.1),
            None => None,
        }
    }
    pub fn entry(&mut self, k: K) -> Entry<'_, K, V> {
        match self.pos(&k) {
            Some(i) => Entry::Occupied(Occupied { map: self, i }),
            None => Entry::Vacant(Vacant { map: self, k }),
        }
    }
    pub fn contains_key(&self, k: &K) -> bool {
        self.pos(k).is_some()
    }
    pub fn iter(&self) -> std::vec::IntoIter<(&K, &V)> {
        let mut v = Vec::new();
        let mut i = 0;
        while i < MAP_CAP {
            if let Some((k, val)) = &self.items[i] {
                v.push((k, &**val));
            }
            i += 1;
        }
        v.into_iter()
    }
    pub fn values(&self) -> std::vec::IntoIter<&V> {
        let mut v = Vec::new();
        let mut i = 0;
        while i < MAP_CAP {
            if let Some((_, val)) = &self.items[i] {
                v.push(&**val);
            }
            i += 1;
        }
        v.into_iter()
    }
    pub fn keys(&self) -> std::vec::IntoIter<&K> {
        let mut v = Vec::new();
        let mut i = 0;
        while i < MAP_CAP {
            if let Some((k, _)) = &self.items[i] {
                v.push(k);
            }
            i += 1;
        }
        v.into_iter()
    }
    pub fn len(&self) -> usize {
        let mut n = 0;
        let mut i = 0;
        while i < MAP_CAP {
            if self.items[i].is_some() {
                n += 1;
            }
            i += 1;
        }
        n
    }
    pub fn is_empty(&self) -> bool {
        self.len() == 0
    }
    pub fn insert(&mut self, k: K, v: V) -> Option<V> {
        match self.entry(k) {
            Entry::Occupied(mut o) => Some(std::mem::replace(o.get_mut(), v)),
            Entry::Vacant(p) => {
                p.insert(v);
                None
            }
        }
    }
}
pub enum Entry<'a, K, V> {
    Occupied(Occupied<'a, K, V>),
    Vacant(Vacant<'a, K, V>),
}
pub struct Occupied<'a, K, V> {
    map: &'a mut SmallMap<K, V>,
    i: usize,
}
impl<'a, K, V> Occupied<'a, K, V> {
    pub fn get_mut(&mut self) -> &mut V {
        &mut *self.map.items[self.i].as_mut().unwrap().1
    }
}
pub struct Vacant<'a, K, V> {
    map: &'a mut SmallMap<K, V>,
    k: K,
}
impl<'a, K, V> Vacant<'a, K, V> {
    pub fn insert(self, v: V) -> &'a mut V {
        let i = if self.map.items[0].is_none() {
            0
        } else {
            assert!(self.map.items[1].is_none(), "harness capacity: at most MAP_CAP signals (harness bug, not a property)");
            1
        };
        self.map.items[i] = Some((self.k, Box::new(v)));
        &mut *self.map.items[i].as_mut().unwrap().1
    }
}

// ordered map stand-in for BTreeMap<ActionId, Arc<Action>>: a compact prefix kept sorted by key
#[derive(Clone)]
pub struct OrdMap<K, V> {
    items: [Option<(K, V)>; ORD_CAP],
}
impl<K: Ord + Copy, V> OrdMap<K, V> {
    pub fn new() -> Self {
        OrdMap { items: [None, None, None] }
    }
    pub fn len(&self) -> usize {
        let mut n = 0;
        let mut i = 0;
        while i < ORD_CAP {
            if self.items[i].is_some() {
                n += 1;
            }
            i += 1;
        }
        n
    }
    pub fn insert(&mut self, k: K, v: V) -> Option<V> {
        // existing key: replace
        let mut i = 0;
        while i < ORD_CAP {
            if let Some((kk, vv)) = &mut self.items[i] {
                if *kk == k {
                    return Some(std::mem::replace(vv, v));
                }
            }
            i += 1;
        }
        let n = self.len();
        assert!(n < ORD_CAP, "harness capacity: at most ORD_CAP actions per signal (harness bug, not a property)");
        // position = number of smaller keys
        let mut pos = 0;
        let mut i = 0;
        while i < ORD_CAP {
            if let Some((kk, _)) = &self.items[i] {
                if *kk < k {
                    pos += 1;
                }
            }
            i += 1;
        }
        let mut j = ORD_CAP - 1;
        while j > 0 {
            if j > pos && j <= n {
                self.items[j] = self.items[j - 1].take();
            }
            j -= 1;
        }
        self.items[pos] = Some((k, v));
        None
    }
    pub fn remove(&mut self, k: &K) -> Option<V> {
        let mut found = None;
        let mut i = 0;
        while i < ORD_CAP {
            if found.is_none() {
                if let Some((kk, _)) = &self.items[i] {
                    if *kk == *k {
                        found = self.items[i].take().map(|kv| kv.1);
                    }
                }
            } else {
                // shift the rest left
                self.items[i - 1] = self.items[i].take();
            }
            i += 1;
        }
        found
    }
    pub fn values(&self) -> Values<'_, K, V> {
        Values { m: self, i: 0 }
    }
    pub fn keys(&self) -> std::vec::IntoIter<&K> {
        let mut v = Vec::new();
        let mut i = 0;
        while i < ORD_CAP {
            if let Some((k, _)) = &self.items[i] {
                v.push(k);
            }
            i += 1;
        }
        v.into_iter()
    }
    pub fn range<R: std::ops::RangeBounds<K>>(&self, r: R) -> std::vec::IntoIter<(&K, &V)> {
        let mut v = Vec::new();
        let mut i = 0;
        while i < ORD_CAP {
            if let Some((k, val)) = &self.items[i] {
                if r.contains(k) {
                    v.push((k, val));
                }
            }
            i += 1;
        }
        v.into_iter()
    }
    pub fn contains_key(&self, k: &K) -> bool {
        let mut i = 0;
        let mut f = false;
        while i < ORD_CAP {
            if let Some((kk, _)) = &self.items[i] {
                if *kk == *k {
                    f = true;
                }
            }
            i += 1;
        }
        f
    }
    pub fn is_empty(&self) -> bool {
        self.items[0].is_none()
    }
    pub fn clear(&mut self) {
        self.items = [None, None, None];
    }
}
pub struct Values<'a, K, V> {
    m: &'a OrdMap<K, V>,
    i: usize,
}
impl<'a, K, V> Iterator for Values<'a, K, V> {
    type Item = &'a V;
    fn next(&mut self) -> Option<&'a V> {
        if self.i < ORD_CAP {
            let r = self.m.items[self.i].as_ref().map(|kv| &kv.1);
            self.i += 1;
            r
        } else {
            None
        }
    }
}

// ---- ghost log of what actions / previous handlers ran ------------------------------------------
const LOGCAP: usize = 5;
static mut LOG: [u8; LOGCAP] = [0; LOGCAP];
static mut LOGN: usize = 0;
fn log(tag: u8) {
    unsafe {
        assert!(LOGN < LOGCAP, "ghost log capacity (harness bug)");
        LOG[LOGN] = tag;
        LOGN += 1;
    }
}
const PREV1: u8 = 101; // one-argument previous handler ran
const PREV3: u8 = 103; // three-argument previous handler ran
static mut PREV_SIG: c_int = 0;
static mut PREV_INFO: usize = 0;
static mut PREV_CTX: usize = 0;
extern "C" fn prev_one(sig: c_int) {
    unsafe {
        PREV_SIG = sig;
    }
    log(PREV1);
}
extern "C" fn prev_three(sig: c_int, info: *mut siginfo_t, ctx: *mut c_void) {
    unsafe {
        PREV_SIG = sig;
        PREV_INFO = info as usize;
        PREV_CTX = ctx as usize;
    }
    log(PREV3);
}

// Contract of Prev::execute, used modularly by the harnesses below (proved on the real function for
// every disposition and flag word by c04_prev_execute): default/ignore => nothing; otherwise exactly
// one call of the stored handler, with (sig) or (sig, info, ctx) according to SA_SIGINFO. The call is
// recorded in the ghost log instead of being made through a function pointer (for the model checker
// an indirect call may target the library's own `handler`, which makes it explore nested deliveries
// to the unwinding bound).
pub unsafe fn prev_execute_contract(p: &Prev, sig: c_int, info: *mut siginfo_t, data: *mut c_void) {
    let f = p.info.sa_sigaction;
    if f != 0 && f != libc::SIG_DFL && f != libc::SIG_IGN {
        PREV_SIG = sig;
        if p.info.sa_flags & libc::SA_SIGINFO == 0 {
            log(PREV1);
        } else {
            PREV_INFO = info as usize;
            PREV_CTX = data as usize;
            log(PREV3);
        }
    }
}


fn act(tag: u8) -> impl Fn(&siginfo_t) + Send + Sync + 'static {
    move |_info: &siginfo_t| log(tag)
}
unsafe fn deliver(sig: c_int) {
    let mut info: siginfo_t = std::mem::zeroed();
    info.si_signo = sig;
    let mut ctx = 0u8;
    LOGN = 0;
    handler(sig, &mut info as *mut siginfo_t, &mut ctx as *mut u8 as *mut c_void);
}
unsafe fn log_is(expect: &[u8]) -> bool {
    if LOGN != expect.len() {
        return false;
    }
    let mut i = 0;
    let mut ok = true;
    while i < LOGCAP {
        if i < expect.len() && LOG[i] != expect[i] {
            ok = false;
        }
        i += 1;
    }
    ok
}

macro_rules! hist {
    ($(#[$m:meta])* fn $name:ident() $body:block) => {
        #[kani::proof]
        #[kani::unwind(7)]
        #[kani::stub(Prev::execute, prev_execute_contract)]
        #[kani::stub(half_lock::WriteGuard::<T>::store, half_lock::verif_contract::store_contract)]
        #[kani::stub(alloc::sync::Arc::<T, A>::drop_slow, half_lock::verif_contract::arc_drop_slow_stub)]
        $(#[$m])*
        fn $name() {
            lm::link();
            unsafe {
                lm::OLD_HANDLER = prev_three as usize;
                lm::OLD_FLAGS = libc::SA_SIGINFO;
            }
            $body
        }
    };
}

// three actions on one signal, removal of the OLDEST, of the MIDDLE and of the NEWEST one: the survivors
// keep running in registration order (C02), ids are fresh (C05), the previous handler stays chained (C04)
hist! {
    fn c02_hist_order() {
        let a: c_int = kani::any();
        kani::assume(!FORBIDDEN.contains(&a));
        unsafe {
            let i1 = register_sigaction(a, act(1)).unwrap();
            let i2 = register_sigaction(a, act(2)).unwrap();
            let i3 = register_sigaction(a, act(3)).unwrap();
            assert!(i1 != i2 && i2 != i3 && i1 != i3, "C05.HIST-ID-FRESH: every registration yields an id never handed out before");
            deliver(a);
            assert!(log_is(&[PREV3, 1, 2, 3]), "C02.HIST-ORDER: a delivery runs the previous handler first, then every action of its signal exactly once in registration order");
            let which: u8 = kani::any();
            kani::assume(which < 3);
            let victim = if which == 0 { i1 } else if which == 1 { i2 } else { i3 };
            assert!(unregister(victim), "C05.HIST-UNREG: unregister of a live id returns true");
            assert!(!unregister(victim), "C05.HIST-UNREG: and false for the now stale id");
            deliver(a);
            assert!(log_is(if which == 0 { &[PREV3, 2, 3] } else if which == 1 { &[PREV3, 1, 3] } else { &[PREV3, 1, 2] }),
                "C02.HIST-ORDER: after a removal the remaining actions still run in the order they were registered (whichever one was removed)");
            assert!(lm::N_SIGACTION == 2, "C05.HIST-INSTALL-ONCE: the handler is installed once (query + install) for the whole history");
            kani::cover!(which == 0, "C02.cover: oldest removed");
        }
    }
}

// ids are not reused and a later registration runs last
hist! {
    fn c05_hist_reregister() {
        let a: c_int = kani::any();
        kani::assume(!FORBIDDEN.contains(&a));
        unsafe {
            let i1 = register_sigaction(a, act(1)).unwrap();
            let i2 = register_sigaction(a, act(2)).unwrap();
            assert!(unregister(if kani::any() { i1 } else { i2 }), "C05.HIST-UNREG: unregister of a live id returns true");
            let i4 = register_sigaction(a, act(4)).unwrap();
            assert!(i4 != i1 && i4 != i2, "C05.HIST-ID-FRESH: ids are not reused after a removal");
            deliver(a);
            assert!(LOGN == 3 && LOG[2] == 4, "C02.HIST-ORDER: a later registration runs last");
        }
    }
}

// two signals: removal on one never changes what the other does; unregister_signal; zero actions left
hist! {
    fn c05_hist_two_signals() {
        let a: c_int = kani::any();
        let b: c_int = kani::any();
        kani::assume(a != b && !FORBIDDEN.contains(&a) && !FORBIDDEN.contains(&b));
        unsafe {
            let i1 = register_sigaction(a, act(1)).unwrap();
            let i2 = register_sigaction(b, act(2)).unwrap();
            let i3 = register_sigaction(a, act(3)).unwrap();
            deliver(b);
            assert!(log_is(&[PREV3, 2]), "C02.HIST-ONLY-SIG: actions registered for other signals are never run");
            #[allow(deprecated)]
            {
                assert!(unregister_signal(a), "C05.HIST-UNREG-SIGNAL: unregister_signal reports true when the signal had actions");
                assert!(!unregister_signal(a), "C05.HIST-UNREG-SIGNAL: and false when none are left");
            }
            assert!(!unregister(i1) && !unregister(i3), "C05.HIST-UNREG: ids removed by unregister_signal are stale");
            deliver(a);
            assert!(log_is(&[PREV3]), "C04.HIST-STILL-CHAINED: with zero actions left the previous handler is still called exactly once (the library keeps the signal)");
            deliver(b);
            assert!(log_is(&[PREV3, 2]), "C05.HIST-INDEPENDENT: removing all actions of one signal never changes what other signals do");
            assert!(unregister(i2), "C05.HIST-UNREG: other signals' ids stay valid");
            assert!(lm::N_SIGACTION == 4, "C05.HIST-INSTALL-ONCE: two signals, two installations, nothing uninstalled");
        }
    }
}

// The same history with CONCRETE choices (signal SIGUSR1, the OLDEST action removed, then a re-registration): a plain
// symbolic execution of the public mutators + dispatcher with nothing left for the solver, so it also finishes when the
// per-signal container is refactored into something the symbolic harness above is too expensive for (a Vec with
// swap_remove: seeds C02b / C05d). Bounded: one concrete history.
hist! {
    fn c02_hist_order_concrete() {
        let a: c_int = libc::SIGUSR1;
        unsafe {
            let i1 = register_sigaction(a, act(1)).unwrap();
            let i2 = register_sigaction(a, act(2)).unwrap();
            let i3 = register_sigaction(a, act(3)).unwrap();
            assert!(i1 != i2 && i2 != i3 && i1 != i3, "C05.HIST-ID-FRESH: every registration yields an id never handed out before");
            assert!(unregister(i1), "C05.HIST-UNREG: unregister of a live id returns true");
            assert!(!unregister(i1), "C05.HIST-UNREG: and false for the now stale id");
            deliver(a);
            assert!(log_is(&[PREV3, 2, 3]), "C02.HIST-ORDER: after the oldest action was removed the remaining ones still run in the order they were registered");
            let i4 = register_sigaction(a, act(4)).unwrap();
            assert!(i4 != i1 && i4 != i2 && i4 != i3, "C05.HIST-ID-FRESH: ids are not reused after a removal");
            deliver(a);
            assert!(log_is(&[PREV3, 2, 3, 4]), "C02.HIST-ORDER: a later registration runs last");
            // removal of the NEWEST id, then another registration: the id must not come back (a counter derived from the
            // live ids would hand it out again: seed C02d)
            assert!(unregister(i4), "C05.HIST-UNREG: unregister of a live id returns true");
            let i5 = register_sigaction(a, act(5)).unwrap();
            assert!(i5 != i4 && i5 != i3 && i5 != i2 && i5 != i1, "C05.HIST-ID-FRESH: the id of a removed action is never handed out again, also when it was the newest one");
            assert!(!unregister(i4), "C05.HIST-UNREG: the stale id stays dead after a later registration");
            deliver(a);
            assert!(log_is(&[PREV3, 2, 3, 5]), "C02.HIST-ORDER: the stale id removed nothing; the newest registration runs last");
            assert!(lm::N_SIGACTION == 2, "C05.HIST-INSTALL-ONCE: the handler is installed once (query + install) for the whole history");
        }
    }
}
