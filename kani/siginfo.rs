// Contracts for src/low_level/siginfo.rs (C17), feature extended-siginfo. The three extern "C"
// functions are the REAL src/low_level/extract.c of the tree under test, linked with --c-lib, so
// Rust and C sides are verified together over every (si_code, si_signo, si_pid, si_uid).
#![allow(dead_code, static_mut_refs, unused_imports)]
use super::*;
use std::mem;

const SI_USER: c_int = 0;
const SI_KERNEL: c_int = 0x80;
const SI_QUEUE: c_int = -1;
const SI_MESGQ: c_int = -3;
const SI_TKILL: c_int = -6;

// Oracle (ledger A6): which cause class the kernel documents for (si_code, si_signo) and whether the
// kill/sigchld union member (si_pid, si_uid) is valid for it - sigaction(2).
fn spec_cause(code: c_int, signo: c_int) -> Cause {
    if code == SI_KERNEL { return Cause::Kernel; }
    if code == SI_USER { return Cause::Sent(Sent::User); }
    if code == SI_TKILL { return Cause::Sent(Sent::TKill); }
    if code == SI_QUEUE { return Cause::Sent(Sent::Queue); }
    if code == SI_MESGQ { return Cause::Sent(Sent::MesgQ); }
    if signo == libc::SIGCHLD {
        match code {
            1 => return Cause::Chld(Chld::Exited),
            2 => return Cause::Chld(Chld::Killed),
            3 => return Cause::Chld(Chld::Dumped),
            4 => return Cause::Chld(Chld::Trapped),
            5 => return Cause::Chld(Chld::Stopped),
            6 => return Cause::Chld(Chld::Continued),
            _ => {}
        }
    }
    Cause::Unknown
}
fn kernel_supplies_process(c: &Cause) -> bool {
    match c {
        Cause::Unknown | Cause::Kernel => false,
        Cause::Sent(_) | Cause::Chld(_) => true,
    }
}

#[kani::proof]
#[kani::unwind(13)]
fn c17_extract() {
    let mut info: siginfo_t = unsafe { mem::zeroed() };
    let code: c_int = kani::any();
    let signo: c_int = kani::any();
    let pid: pid_t = kani::any();
    let uid: uid_t = kani::any();
    info.si_code = code;
    info.si_signo = signo;
    unsafe {
        // x86-64 Linux layout of the kill/SIGCHLD union member: si_pid at byte 16, si_uid at byte 20
        let base = &mut info as *mut siginfo_t as *mut u8;
        *(base.add(16) as *mut pid_t) = pid;
        *(base.add(20) as *mut uid_t) = uid;
    }
    let o = unsafe { Origin::extract(&info) };
    let want = spec_cause(code, signo);
    assert!(o.signal == signo, "C17.RS-SIGNAL: the origin carries the delivered signal number");
    assert!(o.cause == want, "C17.RS-TABLE: the cause class matches how the signal was sent");
    assert!(o.process.is_some() == kernel_supplies_process(&want), "C17.RS-PROCESS-IFF: a process is reported exactly when the kernel supplies one (never stale union bytes)");
    if let Some(p) = o.process {
        assert!(p.pid == pid && p.uid == uid, "C17.RS-PID: pid and uid are the kernel's si_pid / si_uid");
        kani::cover!(true, "C17.cover: process reported");
    }
    kani::cover!(o.cause == Cause::Kernel, "C17.cover: kernel cause");
    kani::cover!(o.cause == Cause::Chld(Chld::Continued), "C17.cover: child continued");
    kani::cover!(o.cause == Cause::Unknown && code == 1, "C17.cover: CLD code on a non-SIGCHLD signal is unknown");
}
