// Contracts for src/low_level/signal_details.rs (C16). `super::*` are the real functions.
#![allow(dead_code, static_mut_refs, unused_imports)]
use super::*;

#[path = "libc_model.rs"]
mod lm;
#[path = "signal_spec.rs"]
mod spec;

static mut SIG: c_int = 0;

fn kind_of(s: c_int) -> Option<u8> {
    if signal_name(s).is_some() { spec::linux_default(s) } else { None }
}

// Postcondition of the Term flow at the point where the kernel is asked to deliver the signal.
fn on_raise(sig: c_int) {
    unsafe {
        let s = SIG;
        if sig == s && s != libc::SIGKILL && s != libc::SIGSTOP {
            assert!(kind_of(s) == Some(spec::TERM), "C16.KIND: the signal is re-raised only when the platform default is to terminate");
            assert!(lm::tlen() == 5, "C16.SEQ-TERM: restore, unblock, re-raise - exactly these calls before the raise");
            let a = lm::at(0);
            assert!(a.kind == lm::EV_SIGACTION && a.a == s as i64 && a.b == 1 && a.d == libc::SIG_DFL as i64 && a.r == 0,
                "C16.SEQ-TERM: the disposition is reset to SIG_DFL (successfully) before the raise");
            assert!(lm::at(1).kind == lm::EV_SIGEMPTYSET && lm::at(2).kind == lm::EV_SIGADDSET && lm::at(2).a == s as i64,
                "C16.UNBLOCK-BEFORE-RAISE: the unblocked set is exactly {signal}");
            let m = lm::at(3);
            assert!(m.kind == lm::EV_SIGPROCMASK && m.a == libc::SIG_UNBLOCK as i64 && m.b == 1,
                "C16.UNBLOCK-BEFORE-RAISE: the signal is unblocked before it is re-raised (works inside its own handler)");
            kani::cover!(true, "C16.cover: term flow reaches raise");
        }
    }
}
fn on_abort() {
    unsafe {
        let s = SIG;
        assert!(kind_of(s) == Some(spec::TERM) && s != libc::SIGKILL && s != libc::SIGSTOP,
            "C16.KIND: abort() is reached only as the fallback of the terminate flow");
        let a = lm::at(0);
        assert!(lm::tlen() >= 2 && a.kind == lm::EV_SIGACTION && a.a == s as i64, "C16.ABORT-FALLBACK: abort comes after the restore attempt");
        if a.r == 0 {
            assert!(lm::tlen() == 6 && lm::at(4).kind == lm::EV_RAISE && lm::at(4).a == s as i64,
                "C16.ABORT-FALLBACK: with the default restored, abort is reached only after the re-raise returned");
            kani::cover!(true, "C16.cover: abort after raise returned");
        } else {
            assert!(lm::tlen() == 2, "C16.ABORT-FALLBACK: if the default cannot be restored nothing but abort follows");
            kani::cover!(true, "C16.cover: abort after failed restore");
        }
    }
}
fn on_exit(_s: c_int) {
    assert!(false, "C16.NO-EXIT: emulation never calls _exit/exit");
}

#[kani::proof]
#[kani::unwind(34)]
fn c16_emulate() {
    lm::link();
    let s: c_int = kani::any();
    unsafe {
        SIG = s;
        lm::ON_RAISE = Some(on_raise);
        lm::ON_ABORT = Some(on_abort);
        lm::ON_EXIT = Some(on_exit);
        lm::ON_EXIT_HOOKS = Some(on_exit);
        lm::SIGACTION_FAIL_FROM = 0; // sigaction may fail
    }
    let res = emulate_default_handler(s);
    // ---- the function returned ----
    if s == libc::SIGKILL || s == libc::SIGSTOP {
        assert!(lm::tlen() == 1 && lm::at(0).kind == lm::EV_RAISE && lm::at(0).a == s as i64, "C16.DIRECT: KILL/STOP are raised directly");
        assert!(res.is_ok() == (lm::at(0).r != -1), "C16.DIRECT: the OS verdict of the raise is returned");
        kani::cover!(true, "C16.cover: direct raise");
        return;
    }
    match kind_of(s) {
        None => {
            assert!(res.is_err(), "C16.UNKNOWN: an unknown signal returns an error");
            assert!(res.as_ref().err().and_then(|e| e.raw_os_error()) == Some(libc::EINVAL), "C16.UNKNOWN: the error is EINVAL");
            assert!(lm::tlen() == 0, "C16.UNKNOWN: and nothing else is done");
            kani::cover!(s > 0 && s < 32, "C16.cover: unknown in range");
            kani::cover!(s < 0, "C16.cover: unknown negative");
        }
        Some(spec::IGN) | Some(spec::CONT) => {
            assert!(res.is_ok() && lm::tlen() == 0, "C16.KIND: default ignore/continue - the process simply continues, no system call");
            kani::cover!(true, "C16.cover: ignore kind");
        }
        Some(spec::STOP) => {
            assert!(lm::tlen() == 1 && lm::at(0).kind == lm::EV_RAISE && lm::at(0).a == libc::SIGSTOP as i64, "C16.KIND: default stop - the process is stopped (raise(SIGSTOP)) and nothing else");
            assert!(res.is_ok() == (lm::at(0).r != -1), "C16.KIND: stop flow returns the verdict of raise");
            kani::cover!(true, "C16.cover: stop kind");
        }
        _ => {
            assert!(false, "C16.KIND: default terminate - emulation must not return");
        }
    }
}

#[kani::proof]
#[kani::unwind(34)]
fn c16_name() {
    let s: c_int = kani::any();
    kani::assume(s >= 0 && s <= 65);
    if let Some(n) = signal_name(s) {
        assert!(spec::is_name_of(s, n), "C16.NAME: a known name is the platform's name for that number");
        kani::cover!(s == 15, "C16.cover: SIGTERM is known");
    }
}

#[kani::proof]
#[kani::unwind(34)]
fn c16_oor_name() {
    let s: c_int = kani::any();
    kani::assume(s < 0 || s > 65);
    assert!(signal_name(s).is_none(), "C16.NAME-RANGE: numbers outside the platform's range have no name");
}
