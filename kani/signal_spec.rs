// Transcribed oracle (assumption ledger A6): Linux x86-64 signal numbers, their names and default
// dispositions, from signal(7) / <asm/signal.h>. Core-dumping signals are `TERM` here: the property
// speaks of "terminated by that very signal". `./check selftest-spec` compares this table with the
// running kernel in forked children.
#![allow(dead_code)]
use libc::c_int;

pub const TERM: u8 = 1;
pub const IGN: u8 = 2;
pub const STOP: u8 = 3;
pub const CONT: u8 = 4; // continue if stopped, otherwise nothing

pub fn linux_default(sig: c_int) -> Option<u8> {
    match sig {
        1..=16 => Some(TERM),   // HUP INT QUIT ILL TRAP ABRT BUS FPE KILL USR1 SEGV USR2 PIPE ALRM TERM STKFLT
        17 => Some(IGN),        // CHLD
        18 => Some(CONT),       // CONT
        19..=22 => Some(STOP),  // STOP TSTP TTIN TTOU
        23 => Some(IGN),        // URG
        24..=27 => Some(TERM),  // XCPU XFSZ VTALRM PROF
        28 => Some(IGN),        // WINCH
        29..=31 => Some(TERM),  // IO/POLL PWR SYS
        _ => None,
    }
}

pub fn is_name_of(sig: c_int, n: &str) -> bool {
    match sig {
        1 => n == "SIGHUP",
        2 => n == "SIGINT",
        3 => n == "SIGQUIT",
        4 => n == "SIGILL",
        5 => n == "SIGTRAP",
        6 => n == "SIGABRT" || n == "SIGIOT",
        7 => n == "SIGBUS",
        8 => n == "SIGFPE",
        9 => n == "SIGKILL",
        10 => n == "SIGUSR1",
        11 => n == "SIGSEGV",
        12 => n == "SIGUSR2",
        13 => n == "SIGPIPE",
        14 => n == "SIGALRM",
        15 => n == "SIGTERM",
        16 => n == "SIGSTKFLT",
        17 => n == "SIGCHLD" || n == "SIGCLD",
        18 => n == "SIGCONT",
        19 => n == "SIGSTOP",
        20 => n == "SIGTSTP",
        21 => n == "SIGTTIN",
        22 => n == "SIGTTOU",
        23 => n == "SIGURG",
        24 => n == "SIGXCPU",
        25 => n == "SIGXFSZ",
        26 => n == "SIGVTALRM",
        27 => n == "SIGPROF",
        28 => n == "SIGWINCH",
        29 => n == "SIGIO" || n == "SIGPOLL",
        30 => n == "SIGPWR",
        31 => n == "SIGSYS" || n == "SIGUNUSED",
        _ => false,
    }
}
