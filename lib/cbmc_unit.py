"""Engine C: CBMC directly on the real src/low_level/extract.c."""
import os, re, subprocess
import shv

import os as _os
H = _os.path.dirname(_os.path.dirname(_os.path.abspath(__file__))) + '/cbmc/extract_harness.c'


def run_extract(sc, unit, pid, tier):
    src = os.path.join(sc.path, 'src/low_level/extract.c')
    out = {'cmds': [], 'discharged': {}, 'failed': {}, 'undecided': [], 'reports': [], 'n_checks': 0, 'solver_s': 0.0, 'scan': [H], 'raw': ''}
    if not os.path.exists(src):
        out['undecided'].append('anchor lost: src/low_level/extract.c')
        return out
    base = ['cbmc', H, '-DEXTRACT_C="%s"' % src, '--unwind', '13', '--unwinding-assertions']
    for fn in ('harness_cause', 'harness_pid_uid'):
        cmd = base + ['--function', fn]
        rc, o, wall, to = shv.run_cmd(cmd, sc.path, 300)
        out['cmds'].append(' '.join(cmd))
        out['raw'] += o[-3000:]
        if to or 'VERIFICATION' not in o:
            out['undecided'].append('cbmc %s: no result (%s)' % (fn, o[-400:].replace('\n', ' | ')))
            continue
        m = re.search(r'Runtime decision procedure: ([0-9.]+)', o)
        out['solver_s'] += float(m.group(1)) if m else 0.0
        autofail = []
        for name, line, desc, st in re.findall(r'^\[(\S+)\] line (\d+) (.*): (SUCCESS|FAILURE)$', o, re.M):
            out['n_checks'] += 1
            mm = re.match(r'(C\d\d\.[A-Za-z0-9_\-]+)', desc)
            if mm:
                k = mm.group(1)
                if st == 'SUCCESS':
                    if k not in out['failed']:
                        out['discharged'][k] = {'harness': fn, 'desc': desc, 'engine': 'cbmc', 'n_checks': 1}
                else:
                    out['discharged'].pop(k, None)
                    out['failed'][k] = {'harness': fn, 'desc': desc, 'loc': '%s:%s' % (H, line), 'function': name}
            elif st == 'FAILURE':
                autofail.append('%s line %s %s' % (name, line, desc))
        if autofail:
            out['undecided'].append('cbmc %s: generated check failed: %s' % (fn, autofail[0]))
        out['reports'].append({'unit': 'extract_c', 'harness': fn, 'status': 'ok' if rc == 0 else 'failed', 'time_s': round(wall, 2)})
    # vacuity guard: the interesting result classes are reachable
    cmd = [c for c in base if c != '--unwinding-assertions'] + ['-DCOVER', '--function', 'harness_cause', '--cover', 'cover']
    rc, o, wall, to = shv.run_cmd(cmd, sc.path, 300)
    out['cmds'].append(' '.join(cmd))
    sat = len(re.findall(r': SATISFIED$', o, re.M))
    if sat < 3:
        out['undecided'].append('cbmc cover goals on harness_cause: %d of 3 satisfied (vacuity guard)' % sat)
    # replay a counterexample natively
    if out['failed']:
        cmd = base + ['--function', 'harness_cause', '--trace']
        rc, o, wall, to = shv.run_cmd(cmd, sc.path, 300)
        code = re.findall(r'cx_code=(-?\d+)', o)
        signo = re.findall(r'cx_signo=(-?\d+)', o)
        if code and signo:
            exe = os.path.join(sc.path, 'zz_c17_replay')
            r2, o2, _, _ = shv.run_cmd(['gcc', '-DNATIVE_REPLAY', '-DEXTRACT_C="%s"' % src, '-o', exe, H], sc.path, 120)
            if r2 == 0:
                r3, o3, _, _ = shv.run_cmd([exe, code[-1], signo[-1]], sc.path, 30)
                if r3 == 1:
                    for k in out['failed']:
                        out['failed'][k]['replayed'] = 'REPLAYED on the real C code (native gcc build of this tree): ' + o3.strip()
    return out
