#!/usr/bin/env python3
import argparse, json, os, re, sys, time
sys.path.insert(0, os.path.dirname(os.path.abspath(__file__)))
import shv
from shv import log, VERIF, Undecided
OUT = os.environ.get('SHV_OUT', VERIF)  # evidence/replay root (mutation runs write elsewhere)
import props as P
import replay as R


def load_known():
    known, fixed = [], []
    p = os.path.join(VERIF, 'known_findings.txt')
    if os.path.exists(p):
        for line in open(p):
            line = line.strip()
            if line.startswith('known:'):
                kv = dict(re.findall(r'(\w+)=(\S+)', line))
                kv['text'] = line
                known.append(kv)
            elif line.startswith('fixed:'):
                fixed.append(line)
    return known, fixed


def classify(pid, hname, hcfg, hres, obl_reg):
    """Map one harness' checks to obligations. Returns (discharged, failed, undecided_reasons, covers, nchecks)."""
    discharged, failed, undec = {}, {}, []
    unreach = []
    covers = []
    status_by_obl = {}
    n_auto = n_auto_ok = 0
    auto_fail = []
    unwind_fail = []
    for c in hres['checks']:
        d, st = c['desc'], c['status']
        m = re.match(r'(C\d\d\.[A-Za-z0-9_\-\[\]]+)', d)
        if m and '.cover' in m.group(1):
            covers.append((d, st))
            continue
        if c['category'] == 'cover' or st in ('SATISFIED', 'UNSATISFIABLE', 'UNSAT', 'COVERED', 'UNCOVERED'):
            covers.append((d, st))
            continue
        if m:
            status_by_obl.setdefault(m.group(1), []).append((st, c))
            continue
        # panics in the code under contract that the harness maps to an obligation
        mapped = None
        for rx, obl in hcfg.get('panic_map', []):
            if re.search(rx, c.get('function', '') + ' | ' + d):
                mapped = obl
                break
        if mapped:
            status_by_obl.setdefault(mapped, []).append((st, c))
            continue
        n_auto += 1
        if st in ('SUCCESS', 'UNREACHABLE'):
            n_auto_ok += 1
        elif st == 'FAILURE':
            if c['category'] == 'unwind' or 'unwinding assertion' in d:
                unwind_fail.append(c)
            elif hcfg.get('expected_panics') and re.search(hcfg['expected_panics'], d):
                n_auto_ok += 1  # a documented panic of the code under contract, part of the harness' premise
            else:
                auto_fail.append(c)
    # auto (verifier-generated) checks
    if unwind_fail:
        if hcfg.get('unwind_obl'):
            status_by_obl.setdefault(hcfg['unwind_obl'], []).append(('FAILURE', unwind_fail[0]))
        else:
            undec.append('%s: unwinding assertion failed (%s) and no obligation is mapped to it' % (hname, unwind_fail[0]['loc']))
    elif hcfg.get('unwind_obl'):
        status_by_obl.setdefault(hcfg['unwind_obl'], []).append(('SUCCESS', {'desc': 'all unwinding assertions hold', 'loc': '', 'function': ''}))
    if auto_fail:
        if hcfg.get('auto_obl'):
            status_by_obl.setdefault(hcfg['auto_obl'], []).append(('FAILURE', auto_fail[0]))
        else:
            c = auto_fail[0]
            undec.append('%s: verifier-generated check failed: "%s" at %s in %s' % (hname, c['desc'], c['loc'], c['function']))
    elif hcfg.get('auto_obl'):
        status_by_obl.setdefault(hcfg['auto_obl'], []).append(('SUCCESS', {'desc': '%d verifier-generated safety checks (panic, overflow, bounds, pointer validity) hold' % n_auto, 'loc': '', 'function': ''}))
    for obl, lst in status_by_obl.items():
        sts = [s for s, _ in lst]
        if 'FAILURE' in sts:
            c = [c for s, c in lst if s == 'FAILURE'][0]
            # when an unwinding assertion failed all other results are unreliable
            if unwind_fail and hcfg.get('unwind_obl') != obl and not hcfg.get('unwind_obl'):
                undec.append('%s: %s failed but unwinding is incomplete' % (hname, obl))
            else:
                failed[obl] = {'harness': hname, 'desc': c['desc'], 'loc': c['loc'], 'function': c.get('function', '')}
        elif all(s == 'SUCCESS' for s in sts):
            discharged[obl] = {'harness': hname, 'n_checks': len(sts), 'desc': lst[0][1]['desc']}
        elif all(s in ('SUCCESS', 'UNREACHABLE') for s in sts) and 'SUCCESS' in sts:
            discharged[obl] = {'harness': hname, 'n_checks': len(sts), 'desc': lst[0][1]['desc'],
                               'note': '%d instance(s) unreachable' % sts.count('UNREACHABLE')}
        elif all(s == 'UNREACHABLE' for s in sts):
            if obl_reg.get(obl, {}).get('never'):
                # a "this point is never reached" obligation: unreachable IS the proof
                discharged[obl] = {'harness': hname, 'n_checks': len(sts), 'desc': lst[0][1]['desc'], 'note': 'proved unreachable'}
                continue
            unreach.append(obl)
        else:
            if unwind_fail and hcfg.get('unwind_obl'):
                continue  # UNDETERMINED because of the unwinding failure, which is itself reported
            undec.append('%s: obligation %s has status %s' % (hname, obl, '/'.join(sorted(set(sts)))))
    return discharged, failed, undec, covers, len(hres['checks']), unreach


def write_replay(pid, obl, info, extra):
    os.makedirs(os.path.join(OUT, 'replay'), exist_ok=True)
    path = os.path.join(OUT, 'replay', '%s-%s.txt' % (pid, re.sub(r'[^A-Za-z0-9_.\-]', '_', obl)))
    with open(path, 'w') as f:
        f.write('property: %s\nfailed obligation: %s\n' % (pid, obl))
        reg = P.OBLIGATIONS.get(obl, {})
        f.write('obligation text: %s\n' % reg.get('text', ''))
        f.write('function under contract: %s\n' % reg.get('fn', ''))
        for k, v in info.items():
            f.write('%s: %s\n' % (k, v))
        f.write('\n' + extra + '\n')
    return path


def main():
    ap = argparse.ArgumentParser()
    ap.add_argument('prop')
    ap.add_argument('--tier', default=os.environ.get('VERIF_TIER', 'quick'), choices=['quick', 'thorough'])
    ap.add_argument('--replay', default=None)
    ap.add_argument('--keep', action='store_true')
    ap.add_argument('--only', default=None, help='regex on harness names (debug; evidence not written)')
    a = ap.parse_args()
    pid = a.prop
    if a.replay:
        print(open(a.replay).read())
        return 0
    if pid not in P.PROPS:
        print('unknown property', pid)
        return 2
    cfg = P.PROPS[pid]
    seed = int(os.environ.get('VERIF_SEED', '0') or 0)
    t0 = time.time()
    known, fixed = load_known()
    discharged, failed, undec = {}, {}, []
    bounded_ok = {}
    unit_reports = []
    total_checks = 0
    solver_s = 0.0
    cmds = []
    files_scanned = set()
    replays_extra = {}
    replay_texts = {}
    rewrites = []
    unreachable_in = {}
    cover_status = {}
    injected = set()
    all_stubs = []
    def run_unit(uname):
        """one verifier unit on its own scratch copy; returns its partial results (merged below)"""
        R_ = dict(discharged={}, failed={}, undec=[], bounded_ok={}, unit_reports=[], total_checks=0, solver_s=0.0, cmds=[], files_scanned=set(),
                  replays_extra={}, replay_texts={}, rewrites=[], unreachable_in={}, cover_status={}, all_stubs=[])
        discharged, failed, undec, bounded_ok, unit_reports = R_['discharged'], R_['failed'], R_['undec'], R_['bounded_ok'], R_['unit_reports']
        cmds, files_scanned, replays_extra, replay_texts, rewrites = R_['cmds'], R_['files_scanned'], R_['replays_extra'], R_['replay_texts'], R_['rewrites']
        unreachable_in, cover_status, all_stubs = R_['unreachable_in'], R_['cover_status'], R_['all_stubs']
        total_checks = 0
        solver_s = 0.0
        injected = set()
        unit = P.UNITS[uname]
        try:
          with shv.Scratch(keep=a.keep) as sc:
            unit = P.UNITS[uname]
            if unit['engine'] == 'kani':
                hs = {h: hc for h, hc in unit['harnesses'].items()
                      if pid in hc['props'] and (a.tier == 'thorough' or (hc.get('tier', 'quick') == 'quick' and h not in cfg.get('quick_drop', ())))}
                if a.only:
                    hs = {h: hc for h, hc in hs.items() if re.search(a.only, h)}
                if not hs:
                    return R_
                for inj in unit['inject']:
                    rel, hf = inj[0], inj[1]
                    tag = (rel, hf)
                    if tag not in injected:
                        sc.inject(rel, hf, *(inj[2:4]))
                        injected.add(tag)
                    files_scanned.add(hf)
                for rel, pat, rep, mn in unit.get('rewrite', []):
                    n = sc.rewrite(rel, pat, rep, mn)
                    rewrites.append('%s: %d x /%s/ -> %s' % (rel, n, pat, rep))
                for f in unit.get('scan', []):
                    files_scanned.add(f)
                to = unit.get('timeout', {}).get(a.tier, 900 if a.tier == 'quick' else 3600)
                r = shv.run_kani(sc, unit, sorted(hs), to)
                cmds.append(r['cmd'])
                all_stubs += r.get('stubs', [])
                if r['compile_error']:
                    undec.append('unit %s: no verifier result (%s)' % (uname, r['compile_error'][:1500]))
                    unit_reports.append({'unit': uname, 'error': r['compile_error'][:400]})
                    return R_
                for h, hc in hs.items():
                    if h not in r['harnesses']:
                        undec.append('harness %s produced no result (anchor lost or harness not found)' % h)
                        continue
                    hres = r['harnesses'][h]
                    if not hres['checks']:
                        undec.append('harness %s: the verifier reported status %s without any check result (crash / out of memory / timeout)' % (h, hres['status']))
                        continue
                    d, f, u, cov, n, unr = classify(pid, h, hc, hres, P.OBLIGATIONS)
                    for cd, cst in cov:
                        cover_status.setdefault(cd, []).append((cst, h, bool(f) or hres['status'] != 'Success'))
                    for o in unr:
                        if P.belongs(o, pid):
                            unreachable_in.setdefault(o, []).append(h)
                    total_checks += n
                    solver_s += hres.get('solver_s') or 0.0
                    for k, v in d.items():
                        if not P.belongs(k, pid):
                            continue
                        v = dict(v, engine='kani/cbmc', solver=hres['cbmc_stats'] and 'cadical' or 'cadical', harness_time_s=hres['duration_s'])
                        if hc.get('kind', 'proved') == 'bounded' or P.OBLIGATIONS.get(k, {}).get('kind', 'proved').startswith('bounded'):
                            v['bound'] = hc.get('bound', P.OBLIGATIONS.get(k, {}).get('kind'))
                            bounded_ok[k] = v
                        else:
                            discharged.setdefault(k, v)
                    for k, v in f.items():
                        if P.belongs(k, pid):
                            failed[k] = dict(v, unit=uname)
                            tail = r['stdout_tail']
                            i = tail.find('Checking harness')
                            replays_extra[k] = 'verifier output (kani harness %s):\n%s' % (hres['id'], tail[i:] if i >= 0 else tail[-2500:])
                    undec += u
                    unit_reports.append({'unit': uname, 'harness': h, 'status': hres['status'], 'checks': n,
                                         'covers': ['%s [%s]' % c for c in cov][:12], 'time_s': hres['duration_s'],
                                         'solver_s': hres.get('solver_s')})
            elif unit['engine'] in ('cbmc', 'verus', 'static'):
                mod = __import__(unit['module'])
                r = getattr(mod, unit['entry'])(sc, unit, pid, a.tier)
                cmds += r.get('cmds', [])
                total_checks += r.get('n_checks', 0)
                solver_s += r.get('solver_s', 0.0)
                for k, v in r.get('discharged', {}).items():
                    if P.belongs(k, pid):
                        if v.get('bound') or P.OBLIGATIONS.get(k, {}).get('kind', 'proved').startswith('bounded'):
                            bounded_ok[k] = dict(v, bound=v.get('bound') or P.OBLIGATIONS[k]['kind'])
                        else:
                            discharged.setdefault(k, v)
                for k, v in r.get('failed', {}).items():
                    if P.belongs(k, pid):
                        failed[k] = v
                        replays_extra[k] = r.get('raw', '')[-4000:]
                        if v.get('replayed'):
                            replay_texts[k] = v['replayed']
                undec += r.get('undecided', [])
                unit_reports += r.get('reports', [])
                for f in r.get('scan', []):
                    files_scanned.add(f)
        except Undecided as e:
            undec.append(str(e))
        R_['total_checks'] = total_checks
        R_['solver_s'] = solver_s
        return R_

    try:
        unames = cfg['units'] + (cfg.get('units_thorough', []) if a.tier == 'thorough' else [])
        import concurrent.futures
        par = int(os.environ.get('SHV_UNIT_PAR', '3'))
        with concurrent.futures.ThreadPoolExecutor(max_workers=max(1, par)) as ex:
            parts = list(ex.map(run_unit, unames))
        for R_ in parts:
            for k_, v_ in R_['discharged'].items():
                discharged.setdefault(k_, v_)
            failed.update(R_['failed'])
            undec += R_['undec']
            for k_, v_ in R_['bounded_ok'].items():
                bounded_ok.setdefault(k_, v_)
            unit_reports += R_['unit_reports']
            total_checks += R_['total_checks']
            solver_s += R_['solver_s']
            cmds += R_['cmds']
            files_scanned |= R_['files_scanned']
            replays_extra.update(R_['replays_extra'])
            replay_texts.update(R_['replay_texts'])
            rewrites += R_['rewrites']
            for k_, v_ in R_['unreachable_in'].items():
                unreachable_in.setdefault(k_, []).extend(v_)
            for k_, v_ in R_['cover_status'].items():
                cover_status.setdefault(k_, []).extend(v_)
            all_stubs += R_['all_stubs']
        import contextlib
        need_replay = any(P.REPLAYERS.get(o) for o in failed)
        with (shv.Scratch(keep=a.keep) if need_replay else contextlib.nullcontext()) as sc:
            # counterexample replay against the real code, while the scratch copy still exists:
            # first the verifier's concrete values (needs the injected harness), then - on the pristine
            # tree again - the native run of the real code
            todo = []
            for obl, info in sorted(failed.items()):
                hook = P.REPLAYERS.get(obl)
                if not hook or any(k.get('obligation') == obl for k in known):
                    continue
                vals = None
                try:
                    unit = P.UNITS[info['unit']] if info.get('unit') else None
                    if unit and unit['engine'] == 'kani':
                        sc.refresh()
                        for inj in unit['inject']:
                            sc.inject(inj[0], inj[1], *(inj[2:4]))
                        for rel, pat, rep, mn in unit.get('rewrite', []):
                            sc.rewrite(rel, pat, rep, mn)
                        pb = R.kani_playback(sc, unit, info['harness'])
                        vals = pb.get(info['desc'])
                except Exception as e:
                    replays_extra[obl] = replays_extra.get(obl, '') + '\nconcrete playback failed: %r\n' % (e,)
                todo.append((obl, info, hook, vals))
            if todo:
                sc.refresh()
            for obl, info, hook, vals in todo:
                try:
                    replay_texts[obl] = hook({'scratch': sc}, obl, info, vals)
                except Exception as e:  # replay is best effort; its failure never changes the verdict
                    replays_extra[obl] = replays_extra.get(obl, '') + '\nreplay attempt failed: %r\n' % (e,)
    except Undecided as e:
        undec.append(str(e))

    # registered obligations of this property for this tier must all be decided (vacuity guard)
    expected = [o for o, r in P.OBLIGATIONS.items() if P.belongs(o, pid) and (a.tier == 'thorough' or r.get('tier', 'quick') == 'quick')]
    if not a.only:
        for o in expected:
            reg = P.OBLIGATIONS[o]
            if o not in discharged and o not in failed and o not in bounded_ok and reg.get('absent_ok') and reg.get('never'):
                # the assertion lives in a stub that the verified program never calls: Kani did not even
                # generate it. Sound only if the stub was really applied - checked from Kani's Stub: lines.
                if any(re.search(reg['absent_ok'], st) for st in all_stubs) and not undec:
                    discharged[o] = {'harness': '(all)', 'engine': 'kani/cbmc', 'desc': 'stub applied and unreachable: no call site in the verified program', 'note': 'absent'}
        for o in expected:
            if o not in discharged and o not in failed and o not in bounded_ok:
                undec.append('registered obligation %s was not generated by any harness' % o)
    for o in list(discharged) + list(failed) + list(bounded_ok):
        if o not in P.OBLIGATIONS:
            undec.append('obligation %s is not registered in props.OBLIGATIONS' % o)

    # vacuity guard: every cover goal must be satisfied in at least one harness (unless a violation was found there)
    for cd, lst in cover_status.items():
        if not any(st in ('SATISFIED', 'COVERED') for st, _, _ in lst) and not any(fl for _, _, fl in lst):
            undec.append('cover goal satisfied in no harness (vacuity guard): %s [%s]' % (cd, ', '.join('%s:%s' % (h_, st) for st, h_, _ in lst)))
    for o, hs_ in unreachable_in.items():
        if o not in discharged and o not in failed and o not in bounded_ok:
            undec.append('obligation %s is unreachable in every harness that states it (%s): vacuous' % (o, ', '.join(hs_)))
    for o in list(bounded_ok):
        if o in discharged:
            bounded_ok.pop(o)
    for o in failed:
        discharged.pop(o, None)
        bounded_ok.pop(o, None)
    wall = time.time() - t0
    # violations / known findings
    rc = 0
    viol_lines = []
    n_viol = 0
    for obl, info in sorted(failed.items()):
        kf = [k for k in known if k.get('property') == pid and k.get('obligation') == obl and
              (k.get('harness') in (None, info['harness']))]
        if kf:
            print('KNOWN-FINDING: property=%s %s' % (pid, kf[0]['text']))
            continue
        n_viol += 1
        replay_done = replay_texts.get(obl)
        extra = replays_extra.get(obl, '')
        if replay_done:
            extra = replay_done + '\n\n' + extra
        path = write_replay(pid, obl, info, extra)
        suffix = '' if replay_done else ' no-failing-input-found'
        viol_lines.append('VIOLATION property=%s replay=%s%s' % (pid, path, suffix))
    if viol_lines:
        rc = 1
    elif undec:
        rc = 2

    trusted = cfg.get('trusted', [])
    assumptions = list(trusted) + ['scan: ' + s for s in shv.grep_assumptions(sorted(files_scanned))]
    samples = []
    for o in (sorted(discharged) + sorted(bounded_ok))[:8]:
        reg = P.OBLIGATIONS.get(o, {})
        v = discharged.get(o) or bounded_ok.get(o)
        samples.append({'obligation': o, 'function_under_contract': reg.get('fn'), 'statement': reg.get('text'),
                        'harness': v.get('harness'), 'engine': v.get('engine'), 'kind': reg.get('kind', 'proved'),
                        'verifier_check': v.get('desc')})
    level = cfg['level']
    ev = {
        'property_id': pid, 'tier': a.tier, 'seed': seed, 'level': level,
        'coverage': {
            'obligations': len([o for o in expected if o not in bounded_ok]),
            'discharged': len([o for o in expected if o in discharged]),
            'bounded_obligations': {o: v.get('bound') for o, v in bounded_ok.items()},
            'failed': sorted(failed),
            'undecided': undec[:20],
            'checker_cmd': ' ; '.join(cmds) or 'none',
            'trusted_base': trusted,
            'verifier_checks_generated': total_checks,
            'evaluations': total_checks,
            'solver_time_s': round(solver_s, 3),
            'functions_under_contract': sorted({P.OBLIGATIONS[o].get('fn', '?') for o in expected}),
            'obligation_list': {o: ('discharged' if o in discharged else 'bounded-ok' if o in bounded_ok else 'FAILED' if o in failed else 'undecided') for o in expected},
            'harness_reports': unit_reports,
            'source_rewrites_in_scratch_copy': rewrites,
            'samples': samples or [{'note': 'no obligation discharged in this run'}],
            'explanation': cfg.get('explanation', ''),
            'exhaustive': bool(cfg.get('complete')) and not bounded_ok and not undec and not failed,
        },
        'assumptions': assumptions,
        'wall_s': round(wall, 2),
        'violations': n_viol,
    }
    if not a.only:
        os.makedirs(os.path.join(OUT, 'evidence'), exist_ok=True)
        with open(os.path.join(OUT, 'evidence', pid + '.json'), 'w') as f:
            json.dump(ev, f, indent=1)
    print('%s tier=%s obligations=%d discharged=%d bounded-ok=%d failed=%d undecided=%d checks=%d wall=%.1fs' % (
        pid, a.tier, len(expected), len(discharged), len(bounded_ok), len(failed), len(undec), total_checks, wall))
    for l in viol_lines:
        print(l)
    if rc == 2:
        for u in undec[:10]:
            print('UNDECIDED: ' + u.replace('\n', ' | ')[:600])
    return rc


if __name__ == '__main__':
    try:
        rc = main()
    except SystemExit:
        raise
    except BaseException as e:  # an internal error of the driver is never an alarm
        import traceback
        traceback.print_exc()
        print('UNDECIDED: internal error of the check driver: %r' % (e,))
        rc = 2
    sys.exit(rc)
