#!/usr/bin/env python3
"""Dev loop: persistent scratch at /var/tmp/shvdev-<unit>; runs one unit's harnesses with regular output.
usage: lib/dev.py <unit> <harness> [extra cargo-kani args]"""
import os, subprocess, sys
sys.path.insert(0, os.path.dirname(os.path.abspath(__file__)))
import props as P
unit = P.UNITS[sys.argv[1]]
d = '/var/tmp/shvdev-' + sys.argv[1]
os.makedirs(d, exist_ok=True)
subprocess.check_call(['rsync', '-a', '--delete', '--exclude', '/target', '--exclude', '.git', '--exclude', '/*/target', '/repo/', d + '/'])
for inj in unit['inject']:
    rel, hf = inj[0], inj[1]
    with open(os.path.join(d, rel), 'a') as f:
        f.write('\n#[cfg(kani)] #[path = "%s"] %s mod %s;\n' % (hf, inj[3] if len(inj) > 3 else '', inj[2] if len(inj) > 2 else 'verif_kani'))
import re
for rel, pat, rep, mn in unit.get('rewrite', []):
    q = os.path.join(d, rel); t = open(q).read(); open(q, 'w').write(re.sub(pat, rep, t))
cmd = ['cargo', 'kani'] + unit.get('flags', []) + (['--features', unit['features']] if unit.get('features') else [])
for h in sys.argv[2].split(','):
    cmd += ['--harness', h]
cmd += sys.argv[3:]
env = dict(os.environ, CARGO_NET_OFFLINE='true', CARGO_TERM_COLOR='never')
p = subprocess.run(cmd, cwd=os.path.join(d, unit.get('crate', '.')), env=env, stdout=subprocess.PIPE, stderr=subprocess.STDOUT, text=True)
out = p.stdout
i = out.find('Checking harness')
if i < 0:
    print(out[-6000:])
else:
    import re
    body = out[i:]
    # print failed / non-success checks and summary only
    blocks = re.split(r'\n(?=Check \d+:)', body)
    for b in blocks:
        if b.startswith('Check ') and ('Status: SUCCESS' in b) and 'C1' not in b and 'C0' not in b:
            continue
        if b.startswith('Check ') and 'Status: UNREACHABLE' in b and 'C1' not in b and 'C0' not in b:
            continue
        print(b)
    import re as _r
    print('\n'.join(_r.findall(r'(?:Checking harness.*|VERIFICATION:- .*|Verification Time.*|SUMMARY.*\n.*|Complete - .*)', body)))
