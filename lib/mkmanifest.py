#!/usr/bin/env python3
"""Regenerates MANIFEST.json from lib/props.py (so that it is valid at all times)."""
import json, os, sys
sys.path.insert(0, os.path.dirname(os.path.abspath(__file__)))
import props as P
ALL = ['C%02d' % i for i in range(1, 19)]
checks = []
for pid in ALL:
    if pid not in P.PROPS or P.PROPS[pid].get('hidden') or pid in getattr(P, '_HIDE', ()):
        continue
    c = P.PROPS[pid]
    checks.append({
        'property_id': pid,
        'quick_cmd': './check %s --tier quick' % pid,
        'thorough_cmd': './check %s --tier thorough' % pid,
        'evidence_file': '/verif/evidence/%s.json' % pid,
        'replay_cmd_template': './check %s --replay {path}' % pid,
        'engine': ', '.join(sorted({P.UNITS[u]['engine'] for u in c['units']})),
        'level_claimed': {'category': c['level'], 'text': c.get('claim', c.get('explanation', '')), 'design_ref': 'DESIGN.md section 3, ' + pid},
        'level_note': '; '.join(c.get('trusted', [])),
        'technique': c.get('technique', 'function contracts (pre/postconditions over ghost traces) on the real code, discharged by Kani/CBMC'),
    })
na = [{'property_id': p, 'reason': P.NOT_APPLICABLE.get(p, 'no check built yet in this round; see DESIGN.md')} for p in ALL if p not in [c['property_id'] for c in checks]]
m = {
    'version': 1,
    'setup_cmd': './check-setup',
    'hooks': {
        'guard': 'cfg(kani)',
        'enable': 'no source commits: every check appends `#[cfg(kani)] #[path = "/verif/kani/<x>.rs"] mod verif_kani;` to a scratch copy of /repo (cargo kani sets cfg(kani)); Verus/CBMC units extract or #include the real text',
        'baseline_off_cmd': 'cd /repo && cargo test --workspace --no-fail-fast --offline',
        'source_commits': P.HOOK_COMMITS,
        'add_only': True,
    },
    'engines': [
        {'name': 'kani', 'path': '/verif/kani', 'serves_properties': sorted({p for u in P.UNITS.values() if u['engine'] == 'kani' for h in u['harnesses'].values() for p in h['props']}), 'kind_free_text': 'Kani 0.68 / CBMC 6.11 function contracts + ghost traces on the real crates'},
        {'name': 'cbmc', 'path': '/verif/cbmc', 'serves_properties': sorted({p for p, c in P.PROPS.items() if any(P.UNITS[u]['engine'] == 'cbmc' for u in c['units'])}), 'kind_free_text': 'CBMC 6.11 on the real C file'},
        {'name': 'verus', 'path': '/verif/verus', 'serves_properties': sorted({p for p, c in P.PROPS.items() if any(P.UNITS[u]['engine'] == 'verus' for u in c['units'])}), 'kind_free_text': 'Verus on functions extracted mechanically from /repo on every run'},
    ],
    'checks': checks,
    'not_applicable': na,
    'notes': 'Contract-based deductive verification; see DESIGN.md. Exit 2 = undecided (lost anchor / timeout), never an alarm.',
}
json.dump(m, open(os.path.join(os.path.dirname(os.path.dirname(os.path.abspath(__file__))), 'MANIFEST.json'), 'w'), indent=1)
print('checks:', [c['property_id'] for c in checks], 'n/a:', [n['property_id'] for n in na])
