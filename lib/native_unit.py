"""Native stand-in engine: builds a tiny crate around the real sources of the scratch copy and runs it.
Used only for obligations that need real panic unwinding (Kani compiles with panic=abort) and that have
no input domain; always labelled bounded(native execution) in the evidence."""
import os, re, shutil
import shv


def run_native(sc, unit, pid, tier):
    out = {'cmds': [], 'discharged': {}, 'failed': {}, 'undecided': [], 'reports': [], 'n_checks': 0, 'solver_s': 0.0, 'scan': [], 'raw': ''}
    d = os.path.join(sc.path, 'zz_native_' + unit['name'])
    os.makedirs(os.path.join(d, 'src'), exist_ok=True)
    deps = unit.get('deps', 'libc = "0.2"\n')
    open(os.path.join(d, 'Cargo.toml'), 'w').write('[package]\nname = "zz_native_%s"\nversion = "0.0.0"\nedition = "2018"\n[workspace]\n[dependencies]\n%s' % (unit['name'], deps))
    src = open(unit['source']).read().replace('@SCRATCH@', sc.path)
    open(os.path.join(d, 'src', 'main.rs'), 'w').write(src)
    if os.path.exists(os.path.join(sc.path, 'Cargo.lock')):
        shutil.copy(os.path.join(sc.path, 'Cargo.lock'), os.path.join(d, 'Cargo.lock'))
    env = dict(os.environ, CARGO_NET_OFFLINE='true', CARGO_TERM_COLOR='never')
    cmd = ['cargo', 'run', '--offline', '-q']
    rc, o, wall, to = shv.run_cmd(cmd, d, unit.get('timeout_s', 600), env)
    out['cmds'].append('(native) ' + ' '.join(cmd) + '  # ' + os.path.relpath(unit['source'], shv.VERIF))
    out['raw'] = o[-3000:]
    lines = re.findall(r'^OBL (C\d\d\.[A-Za-z0-9_\-]+) (PASS|FAIL) (.*)$', o, re.M)
    if to or not lines:
        out['undecided'].append('native unit %s: no result (%s)' % (unit['name'], o[-600:].replace('\n', ' | ')))
        return out
    for k, st, txt in lines:
        out['n_checks'] += 1
        if st == 'PASS':
            if k not in out['failed']:
                out['discharged'][k] = {'harness': unit['name'], 'desc': txt, 'engine': 'native execution of the real function (stand-in, not a proof)', 'bound': 'bounded(native execution of the single relevant state)'}
        else:
            out['discharged'].pop(k, None)
            if k in out['failed']:
                continue  # the first failure message is the informative one
            out['failed'][k] = {'harness': unit['name'], 'desc': txt, 'loc': unit['source'], 'function': 'native',
                                'replayed': 'REPLAYED on the real code (native build of this tree, %s): %s' % (os.path.basename(unit['source']), txt)}
    out['reports'].append({'unit': unit['name'], 'status': 'ran', 'time_s': round(wall, 2), 'lines': ['%s %s' % (k, st) for k, st, _ in lines]})
    out['scan'].append(unit['source'])
    return out
