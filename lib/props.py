"""Registry: properties -> units (verifier invocations) -> harnesses -> obligations."""
K = '/verif/kani/'
FFI = ['-Z', 'stubbing', '-Z', 'c-ffi', '--c-lib', K + 'libc_shim.c']

LEDGER = {
 'A1': 'A1 memory model: SeqCst atomics are totally ordered; release sequences + acquire give happens-before (C11/Rust); Kani treats atomics as sequential operations',
 'A2': 'A2 std::sync::{Mutex,Once,Arc}, Box, HashMap, BTreeMap meet their documented contracts',
 'A3': 'A3 Rust drop glue: a value passed by value is dropped exactly once, also on unwind',
 'A4': 'A4 libc model /verif/kani/libc_model.rs: return ranges and side effects of each modelled libc function',
 'A5': 'A5 kernel semantics of signals, pipes/sockets, sigaction, _exit',
 'A6': 'A6 transcribed tables: Linux default dispositions (signal(7)) and si_code meanings',
 'A7': 'A7 environment stubs give each atomic operation its sequential meaning plus the stated rely; interference budget K',
 'A8': 'A8 composition of per-function contracts into the whole-history statement is by the argument in DESIGN.md, not machine-checked',
 'A9': 'A9 next_id never reaches u128::MAX; reader count never exceeds isize::MAX',
 'A10': 'A10 Kani 0.68/CBMC 6.11/cadical, Verus/Z3 are sound; integers are bit-precise in Kani/CBMC',
 'A11': 'A11 the kernel never passes a NULL siginfo to an SA_SIGINFO handler',
 'A12': 'A12 registry contract as seen by callers: a registered action is kept and run once per delivery of its signal (this is C02/C05, proved separately)',
}

def L(*ks):
    return [LEDGER[k] for k in ks]

UNITS = {}
PROPS = {}
OBLIGATIONS = {}
REPLAYERS = {}

def obl(oid, fn, text, kind='proved', tier='quick', never=False):
    OBLIGATIONS[oid] = {'prop': oid.split('.')[0], 'fn': fn, 'text': text, 'kind': kind, 'tier': tier, 'never': never}

# --------------------------------------------------------------------------------------------
UNITS['flag'] = dict(
    name='flag', engine='kani', crate='.', inject=[('src/flag.rs', K + 'flag.rs')], flags=FFI,
    scan=[K + 'libc_model.rs', K + 'libc_shim.c'],
    harnesses={
        'c15_flag_set': dict(props=['C15']),
        'c15_flag_usize': dict(props=['C15']),
        'c15_cond_shutdown': dict(props=['C15']),
    })

obl('C15.SET', 'flag::register (action closure)', 'after each of two deliveries, with arbitrary application writes before and between, the flag is true')
obl('C15.SET-SIG', 'flag::register*', 'exactly one registration, for the requested signal number')
obl('C15.SET-PURE', 'flag::register (action closure)', 'the flag action makes no system call')
obl('C15.VALUE', 'flag::register_usize (action closure)', 'after each delivery the flag holds exactly the registered value (all usize)')
obl('C15.EXIT-IFF', 'flag::register_conditional_shutdown (action closure)', '_exit is reached iff the condition loads true during that delivery; otherwise the delivery returns')
obl('C15.STATUS', 'flag::register_conditional_shutdown (action closure)', 'the status passed to _exit equals the registered status, all c_int')
obl('C15.ONLY-EXIT', 'flag::register_conditional_shutdown (action closure)', '_exit is the first and only libc call of the delivery (immediately)')
obl('C15.UNDERSCORE', 'low_level::exit', 'termination is by _exit, never exit()/abort() (no exit-time hooks)', never=True)
obl('C15.NOOP', 'flag::register_conditional_shutdown (action closure)', 'condition false => no libc call at all')

PROPS['C15'] = dict(
    level='proof', units=['flag'],
    trusted=L('A4', 'A5', 'A10', 'A12') + ['history part ("survives the first signal, dies on the second") = per-delivery contract from an arbitrary flag state + C02 order; the induction over histories is by DESIGN.md section C15'],
    explanation='Kani proves the contract of the closures built by the real flag::register* for all prior flag values, all statuses, all signal numbers; deliveries are modelled by a stub of signal_hook_registry::register that runs the captured closure twice.')

UNITS['siginfo'] = dict(
    name='siginfo', engine='kani', crate='.', inject=[('src/low_level/siginfo.rs', K + 'siginfo.rs')],
    flags=['-Z', 'stubbing', '-Z', 'c-ffi', '--c-lib', '{scratch}/src/low_level/extract.c'], features='extended-siginfo',
    harnesses={'c17_extract': dict(props=['C17'])})
FR = 'siginfo.rs: Origin::extract (+ ICause::has_process, From<ICause>, Process::extract) linked with the real extract.c'
obl('C17.RS-SIGNAL', FR, 'origin.signal == si_signo')
obl('C17.RS-TABLE', FR, 'origin.cause == documented class of (si_code, si_signo), all i32 x i32')
obl('C17.RS-PROCESS-IFF', FR, 'origin.process.is_some() <=> cause is Sent(_) or Chld(_)')
obl('C17.RS-PID', FR, 'when reported, pid/uid equal si_pid/si_uid (all values)')
PROPS['C17'] = dict(
    level='proof', units=['extract_c', 'siginfo'],
    trusted=L('A5', 'A6', 'A10') + ['x86-64 Linux siginfo_t layout (si_pid at byte 16, si_uid at 20) for the Rust-side harness; WithOrigin::load = Origin::extract of the record received (C10)'],
    technique='function contracts on the real C file (CBMC) and on the real Rust extractor linked with that C file (Kani), full input domain',
    explanation='CBMC proves the C classifier against the documented si_code table for every (si_code, si_signo); Kani proves Origin::extract, compiled together with the real extract.c, reports signal, cause and process exactly as the kernel-documented meaning, for all inputs.')
import replay as _R
for _o in ('C17.RS-SIGNAL', 'C17.RS-TABLE', 'C17.RS-PROCESS-IFF', 'C17.RS-PID'):
    REPLAYERS[_o] = _R.replay_c17_rs
REPLAYERS['C16.KIND'] = _R.replay_c16_kind
HOOK_COMMITS = []
NOT_APPLICABLE = {}

# --------------------------------------------------------------------------------------------
UNITS['sigdetails'] = dict(
    name='sigdetails', engine='kani', crate='.', inject=[('src/low_level/signal_details.rs', K + 'signal_details.rs')], flags=FFI,
    scan=[K + 'libc_model.rs', K + 'libc_shim.c', K + 'signal_spec.rs'],
    harnesses={
        'c16_emulate': dict(props=['C16']),
        'c16_name': dict(props=['C16']),
        'c16_oor_name': dict(props=['C16']),
    })
F16 = 'low_level::emulate_default_handler'
obl('C16.KIND', F16, 'which flow runs equals the platform default of the signal (oracle: transcribed signal(7) table): terminate / stop / continue; terminate flow never returns')
obl('C16.SEQ-TERM', F16, 'terminate flow = sigaction(sig,{SIG_DFL},NULL) ok, sigemptyset, sigaddset(sig), sigprocmask(SIG_UNBLOCK), raise(sig)')
obl('C16.UNBLOCK-BEFORE-RAISE', F16, 'sig is unblocked (exactly {sig}) after the default is restored and before the raise')
obl('C16.ABORT-FALLBACK', F16, 'abort() is reached iff the restore failed or the raise returned')
obl('C16.DIRECT', F16, 'SIGKILL/SIGSTOP: raise(sig) only, verdict returned')
obl('C16.UNKNOWN', F16, 'unknown signal: Err(EINVAL) and an empty libc trace')
obl('C16.NO-EXIT', F16, 'never _exit/exit', never=True)
obl('C16.NAME', 'low_level::signal_name', 'for all 0..=65: a returned name is a platform name of that number')
obl('C16.NAME-RANGE', 'low_level::signal_name', 'all other c_int: None')
PROPS['C16'] = dict(
    level='proof', units=['sigdetails'],
    trusted=L('A4', 'A5', 'A6', 'A10') + ['that the proved call sequence has the kernel default outcome (also inside the handler) is kernel semantics'],
    explanation='Kani proves, for every c_int, that emulate_default_handler issues exactly the libc call sequence of the platform default kind (oracle: table transcribed from signal(7)), and signal_name only returns platform names.')

# --------------------------------------------------------------------------------------------
UNITS['extract_c'] = dict(name='extract_c', engine='cbmc', module='cbmc_unit', entry='run_extract')
FC = 'extract.c: sighook_signal_cause'
obl('C17.C-RANGE', FC, 'for all (si_code, si_signo): result in 0..=11 (valid repr(u8) discriminant read by Rust)')
obl('C17.C-TABLE', FC, 'result equals the documented class: SI_KERNEL/USER/TKILL/QUEUE/MESGQ for any signal, CLD_* only with SIGCHLD, else 0')
obl('C17.C-CHLD-ONLY', FC, 'si_signo != SIGCHLD => result <= 5')
obl('C17.C-UNKNOWN', FC, 'result 0 only for codes outside the table')
obl('C17.C-PID', 'extract.c: sighook_signal_pid', 'returns info->si_pid')
obl('C17.C-UID', 'extract.c: sighook_signal_uid', 'returns info->si_uid')

# --------------------------------------------------------------------------------------------
UNITS['pipe'] = dict(
    name='pipe', engine='kani', crate='.', inject=[('src/low_level/pipe.rs', K + 'pipe.rs')], flags=FFI,
    rewrite=[('src/low_level/pipe.rs', r'\blibc::fcntl\(', 'verif_kani::fcntl3(', 2)],
    scan=[K + 'libc_model.rs', K + 'libc_shim.c'],
    harnesses={'c13_wake': dict(props=['C13']), 'c13_register': dict(props=['C13'])})
obl('C13.ONE-ATTEMPT', 'pipe::wake, action closure of pipe::register_raw', 'exactly one libc call per wake/delivery for every return value and errno; no loop')
obl('C13.ONE-BYTE', 'pipe::wake', 'length 1, to the registered fd')
obl('C13.DONTWAIT', 'pipe::wake', 'Send => send(.., MSG_DONTWAIT); Write => write')
obl('C13.DELIVERY-NONBLOCKING', 'pipe::register_raw + WakeFd::set_flags', 'method fits the descriptor kind: send+MSG_DONTWAIT only on sockets, write only after fcntl(F_SETFL, ..|O_NONBLOCK) succeeded, before register is reached')
obl('C13.REJECT-INVALID', 'pipe::register_raw', 'invalid fd (send/fcntl fail with EBADF) => Err, register never reached')
obl('C13.CLOSE-ON-ERR', 'pipe::register_raw', 'fcntl failure => Err, no write, fd closed once')
obl('C13.CLOSE-ONCE', 'WakeFd::drop', 'exactly one close(fd), as the last event, when the action is dropped')
obl('C13.REGISTER-ONCE', 'pipe::register_raw', 'exactly one registry registration')
PROPS['C13'] = dict(
    level='proof', units=['pipe'],
    trusted=L('A3', 'A4', 'A5', 'A10', 'A12') + ['"reader sees <= deliveries bytes and >= 1 since last drain" follows from ONE-ATTEMPT + kernel pipe/socket semantics (not machine-checked)'],
    explanation='Kani proves the trace contract of wake() and of the closure built by the real register_raw/register against a libc model with a ghost descriptor (valid?, socket?, O_NONBLOCK set?), for all fds, signals, return values and errnos.')
