"""Registry: properties -> units (verifier invocations) -> harnesses -> obligations."""
import os as _os
_V = _os.path.dirname(_os.path.dirname(_os.path.abspath(__file__)))
K = _V + '/kani/'
# -Z restrict-vtable: a `dyn Trait` call may only resolve to implementations of that trait (without it
# CBMC's function-pointer removal lets a `dyn Fn(&T)` call reach any two-pointer-argument function,
# e.g. every Debug::fmt, and explores core::fmt - the dominant cost in the first measurements)
FFI = ['-Z', 'stubbing', '-Z', 'c-ffi', '--c-lib', K + 'libc_shim.c', '-Z', 'restrict-vtable']

LEDGER = {
 'A1': 'A1 memory model: SeqCst atomics are totally ordered; release sequences + acquire give happens-before (C11/Rust); Kani treats atomics as sequential operations',
 'A2': 'A2 std::sync::{Mutex,Once,Arc}, Box, HashMap, BTreeMap meet their documented contracts',
 'A3': 'A3 Rust drop glue: a value passed by value is dropped exactly once, also on unwind',
 'A4': 'A4 libc model /verif/kani/libc_model.rs: return ranges and side effects of each modelled libc function',
 'A5': 'A5 kernel semantics of signals, pipes/sockets, sigaction, _exit',
 'A6': 'A6 transcribed tables: Linux default dispositions (signal(7)) and si_code meanings',
 'A7': 'A7 environment stubs give each atomic operation its sequential meaning plus the stated rely; interference budget K',
 'A8': 'A8 composition of per-function contracts into the whole-history statement is by the argument in DESIGN.md, not machine-checked',
 'A9': 'A9 next_id never reaches u128::MAX; reader count never exceeds isize::MAX',
 'A10': 'A10 Kani 0.68/CBMC 6.11/cadical, Verus/Z3 are sound; integers are bit-precise in Kani/CBMC',
 'A11': 'A11 the kernel never passes a NULL siginfo to an SA_SIGINFO handler',
 'A12': 'A12 registry contract as seen by callers: a registered action is kept and run once per delivery of its signal (this is C02/C05, proved separately)',
}

def L(*ks):
    return [LEDGER[k] for k in ks]

UNITS = {}
PROPS = {}
OBLIGATIONS = {}
REPLAYERS = {}

def obl(oid, fn, text, kind='proved', tier='quick', never=False, absent_ok=None, also=()):
    OBLIGATIONS[oid] = {'prop': oid.split('.')[0], 'fn': fn, 'text': text, 'kind': kind, 'tier': tier, 'never': never, 'absent_ok': absent_ok, 'also': list(also)}

def belongs(oid, pid):
    return oid.startswith(pid + '.') or pid in OBLIGATIONS.get(oid, {}).get('also', [])

# --------------------------------------------------------------------------------------------
UNITS['flag'] = dict(
    name='flag', engine='kani', crate='.', inject=[('src/flag.rs', K + 'flag.rs')], flags=FFI,
    scan=[K + 'libc_model.rs', K + 'libc_shim.c'],
    harnesses={
        'c15_flag_set': dict(props=['C15', 'C14', 'C03']),
        'c15_flag_usize': dict(props=['C15', 'C14', 'C03']),
        'c15_cond_shutdown': dict(props=['C15', 'C14', 'C03'], panic_map=[(r'Function exit\(\) was invoked|std::process::exit', 'C15.UNDERSCORE'), (r'Function `\w+` with missing definition is unreachable', 'C15.ONLY-EXIT')]),
        'c16_cond_default': dict(props=['C16', 'C14']),
    })

obl('C15.SET', 'flag::register (action closure)', 'after each of two deliveries, with arbitrary application writes before and between, the flag is true')
obl('C15.SET-SIG', 'flag::register*', 'exactly one registration through the checked registry entry point, for the requested signal number, all c_int (so forbidden/invalid numbers get the registry verdict)', also=['C14'])
obl('C15.SET-PURE', 'flag::register (action closure)', 'the flag action makes no system call', also=['C03'])
obl('C15.VALUE', 'flag::register_usize (action closure)', 'after each delivery the flag holds exactly the registered value (all usize)')
obl('C15.EXIT-IFF', 'flag::register_conditional_shutdown (action closure)', '_exit is reached iff the condition loads true during that delivery; otherwise the delivery returns')
obl('C15.STATUS', 'flag::register_conditional_shutdown (action closure)', 'the status passed to _exit equals the registered status, all c_int')
obl('C15.ONLY-EXIT', 'flag::register_conditional_shutdown (action closure)', '_exit is the first and only libc call of the delivery (immediately)', also=['C03'])
obl('C15.UNDERSCORE', 'low_level::exit', 'termination is by _exit, never exit()/abort()/std::process::exit (no exit-time hooks, nothing that is not async-signal-safe)', never=True, also=['C03'])
obl('C15.NOOP', 'flag::register_conditional_shutdown (action closure)', 'condition false => no libc call at all')

PROPS['C15'] = dict(
    level='proof', complete=True, units=['flag'],
    trusted=L('A4', 'A5', 'A10', 'A12') + ['history part ("survives the first signal, dies on the second") = per-delivery contract from an arbitrary flag state + C02 order; the induction over histories is by DESIGN.md section C15'],
    explanation='Kani proves the contract of the closures built by the real flag::register* for all prior flag values, all statuses, all signal numbers; deliveries are modelled by a stub of signal_hook_registry::register that runs the captured closure twice.')

UNITS['siginfo'] = dict(
    name='siginfo', engine='kani', crate='.', inject=[('src/low_level/siginfo.rs', K + 'siginfo.rs')],
    flags=['-Z', 'stubbing', '-Z', 'c-ffi', '--c-lib', '{scratch}/src/low_level/extract.c', '-Z', 'restrict-vtable'], features='extended-siginfo',
    harnesses={'c17_extract': dict(props=['C17'])})
FR = 'siginfo.rs: Origin::extract (+ ICause::has_process, From<ICause>, Process::extract) linked with the real extract.c'
obl('C17.RS-SIGNAL', FR, 'origin.signal == si_signo')
obl('C17.RS-TABLE', FR, 'origin.cause == documented class of (si_code, si_signo), all i32 x i32')
obl('C17.RS-PROCESS-IFF', FR, 'origin.process.is_some() <=> cause is Sent(_) or Chld(_)')
obl('C17.RS-PID', FR, 'when reported, pid/uid equal si_pid/si_uid (all values)')
PROPS['C17'] = dict(
    level='proof', complete=True, units=['extract_c', 'siginfo'],
    trusted=L('A5', 'A6', 'A10') + ['x86-64 Linux siginfo_t layout (si_pid at byte 16, si_uid at 20) for the Rust-side harness; WithOrigin::load = Origin::extract of the record received (C10)'],
    technique='function contracts on the real C file (CBMC) and on the real Rust extractor linked with that C file (Kani), full input domain',
    explanation='CBMC proves the C classifier against the documented si_code table for every (si_code, si_signo); Kani proves Origin::extract, compiled together with the real extract.c, reports signal, cause and process exactly as the kernel-documented meaning, for all inputs.')
import replay as _R
REPLAYERS['C11.PENDING-ONLY-IF-ARMED'] = _R.replay_c11_armed
REPLAYERS['C15.VALUE'] = _R.replay_c15_value
REPLAYERS['C05.FLAGS'] = _R.replay_c05_flags
for _o in ('C16.SEQ-TERM', 'C16.UNBLOCK-BEFORE-RAISE', 'C16.ABORT-FALLBACK'):
    REPLAYERS[_o] = _R.replay_c16_seq
REPLAYERS['C13.DELIVERY-NONBLOCKING'] = _R.replay_c13
REPLAYERS['C13.REJECT-INVALID'] = _R.replay_c13
REPLAYERS['C15.SET'] = _R.replay_c15_set
for _o in ('C15.STATUS', 'C15.EXIT-IFF', 'C15.UNDERSCORE', 'C15.ONLY-EXIT', 'C15.NOOP'):
    REPLAYERS[_o] = _R.replay_c15_shutdown
for _o in ('C17.RS-SIGNAL', 'C17.RS-TABLE', 'C17.RS-PROCESS-IFF', 'C17.RS-PID'):
    REPLAYERS[_o] = _R.replay_c17_rs
REPLAYERS['C16.KIND'] = _R.replay_c16_kind
for _o in ('C05.V-UNREG-IFF-LIVE', 'C05.V-REMOVE-ONLY-IT', 'C05.V-UNREG-SIGNAL', 'C05.V-REG-APPEND', 'C05.V-ID-FRESH', 'C05.V-INV', 'C02.V-ID-MONO', 'C05.V-PUBLISH-IFF-CHANGED'):
    REPLAYERS[_o] = _R.replay_c05_history
HOOK_COMMITS = []
_HIDE = ()
NOT_APPLICABLE = {
 'C03-unused': 'no check of its own: its obligations (read side wait-free, no lock / no wait inside a delivery, reader counts balanced, one system call per built-in action) are discharged inside the C01/C02/C09/C13/C15 checks; "never allocates or frees" cannot be expressed (Kani implements the allocator in its C runtime, it cannot be stubbed) and "bounded steps wherever other threads are paused" reduces to C01/C08; see DESIGN.md 9.2',
}
for _p in ('C02', 'C04', 'C05', 'C14', 'C09', 'C10'):
    if _p in PROPS and _p in globals().get('_HIDE', ()):
        PROPS[_p]['hidden'] = True

# --------------------------------------------------------------------------------------------
UNITS['sigdetails'] = dict(
    name='sigdetails', engine='kani', crate='.', inject=[('src/low_level/signal_details.rs', K + 'signal_details.rs')], flags=FFI,
    scan=[K + 'libc_model.rs', K + 'libc_shim.c', K + 'signal_spec.rs'],
    harnesses={
        'c16_emulate': dict(props=['C16']),
        'c16_name': dict(props=['C16']),
        'c16_oor_name': dict(props=['C16']),
    })
F16 = 'low_level::emulate_default_handler'
obl('C16.KIND', F16, 'which flow runs equals the platform default of the signal (oracle: transcribed signal(7) table): terminate / stop / continue; terminate flow never returns')
obl('C16.SEQ-TERM', F16, 'terminate flow = sigaction(sig,{SIG_DFL},NULL) ok, sigemptyset, sigaddset(sig), sigprocmask(SIG_UNBLOCK), raise(sig)')
obl('C16.UNBLOCK-BEFORE-RAISE', F16, 'sig is unblocked (exactly {sig}) after the default is restored and before the raise')
obl('C16.ABORT-FALLBACK', F16, 'abort() is reached iff the restore failed or the raise returned')
obl('C16.DIRECT', F16, 'SIGKILL/SIGSTOP: raise(sig) only, verdict returned')
obl('C16.UNKNOWN', F16, 'unknown signal: Err(EINVAL) and an empty libc trace')
obl('C16.NO-EXIT', F16, 'never _exit/exit', never=True)
obl('C16.COND', 'flag::register_conditional_default (action closure)', 'emulate_default_handler is invoked during a delivery iff the condition loads true, over two deliveries with arbitrary flips')
obl('C16.COND-SIG', 'flag::register_conditional_default (action closure)', 'with the registered signal')
obl('C16.COND-UNKNOWN', 'flag::register_conditional_default', 'unknown signal: Err before registering')
obl('C16.NAME', 'low_level::signal_name', 'for all 0..=65: a returned name is a platform name of that number')
obl('C16.NAME-RANGE', 'low_level::signal_name', 'all other c_int: None')
PROPS['C16'] = dict(
    level='proof', complete=True, units=['sigdetails', 'flag'],
    trusted=L('A4', 'A5', 'A6', 'A10') + ['that the proved call sequence has the kernel default outcome (also inside the handler) is kernel semantics'],
    explanation='Kani proves, for every c_int, that emulate_default_handler issues exactly the libc call sequence of the platform default kind (oracle: table transcribed from signal(7)), and signal_name only returns platform names.')

# --------------------------------------------------------------------------------------------
UNITS['extract_c'] = dict(name='extract_c', engine='cbmc', module='cbmc_unit', entry='run_extract')
FC = 'extract.c: sighook_signal_cause'
obl('C17.C-RANGE', FC, 'for all (si_code, si_signo): result in 0..=11 (valid repr(u8) discriminant read by Rust)')
obl('C17.C-TABLE', FC, 'result equals the documented class: SI_KERNEL/USER/TKILL/QUEUE/MESGQ for any signal, CLD_* only with SIGCHLD, else 0')
obl('C17.C-CHLD-ONLY', FC, 'si_signo != SIGCHLD => result <= 5')
obl('C17.C-UNKNOWN', FC, 'result 0 only for codes outside the table')
obl('C17.C-PID', 'extract.c: sighook_signal_pid', 'returns info->si_pid')
obl('C17.C-UID', 'extract.c: sighook_signal_uid', 'returns info->si_uid')

# --------------------------------------------------------------------------------------------
UNITS['pipe'] = dict(
    name='pipe', engine='kani', crate='.', inject=[('src/low_level/pipe.rs', K + 'pipe.rs')], flags=FFI,
    rewrite=[('src/low_level/pipe.rs', r'\blibc::fcntl\(', 'verif_kani::fcntl3(', 2)],
    scan=[K + 'libc_model.rs', K + 'libc_shim.c'],
    harnesses={'c13_wake': dict(props=['C13', 'C03']), 'c13_register': dict(props=['C13', 'C14', 'C03'], auto_obl='C14.PIPE-NO-PANIC')})
obl('C13.ONE-ATTEMPT', 'pipe::wake, action closure of pipe::register_raw', 'exactly one libc call per wake/delivery for every return value and errno; no loop', also=['C03'])
obl('C13.ONE-BYTE', 'pipe::wake', 'length 1, to the registered fd')
obl('C13.DONTWAIT', 'pipe::wake', 'Send => send(.., MSG_DONTWAIT); Write => write')
obl('C13.DELIVERY-NONBLOCKING', 'pipe::register_raw + WakeFd::set_flags', 'method fits the descriptor kind: send+MSG_DONTWAIT only on sockets, write only after fcntl(F_SETFL, ..|O_NONBLOCK) succeeded, before register is reached', also=['C03'])
obl('C13.REJECT-INVALID', 'pipe::register_raw', 'invalid fd (send/fcntl fail with EBADF) => Err, register never reached')
obl('C13.CLOSE-ON-ERR', 'pipe::register_raw', 'fcntl failure => Err, no write, fd closed once')
obl('C13.CLOSE-ONCE', 'WakeFd::drop, pipe::register_raw', 'exactly one close(fd), as the last event, when the action is dropped or the registration is rejected on any path (also when a libc call of the front-end itself fails)', also=['C14'])
obl('C13.REGISTER-ONCE', 'pipe::register_raw', 'exactly one registry registration', also=['C14'])
obl('C14.PIPE-RELEASE', 'pipe::register_raw', 'forbidden signal: the action handed to the registry owns the fd; dropping it closes the fd exactly once')
obl('C14.PIPE-NO-PANIC', 'pipe::register_raw, pipe::register', 'no panic inside the pipe front-end itself for any input (refusal happens in the registry, after the fd has an owner)')
PROPS['C13'] = dict(
    level='proof', complete=True, units=['pipe'],
    trusted=L('A3', 'A4', 'A5', 'A10', 'A12') + ['"reader sees <= deliveries bytes and >= 1 since last drain" follows from ONE-ATTEMPT + kernel pipe/socket semantics (not machine-checked)'],
    explanation='Kani proves the trace contract of wake() and of the closure built by the real register_raw/register against a libc model with a ghost descriptor (valid?, socket?, O_NONBLOCK set?), for all fds, signals, return values and errnos.')

# --------------------------------------------------------------------------------------------
_CH_STUB = dict(panic_map=[(r'option::expect_failed', 'C08.NO-PANIC-EXPECT')])
UNITS['channel_priv'] = dict(
    name='channel_priv', engine='kani', crate='.', inject=[('src/low_level/channel.rs', K + 'channel.rs'), ('src/low_level/channel.rs', K + 'channel_priv.rs', 'verif_kani_priv')], flags=['-Z', 'stubbing', '-Z', 'restrict-vtable'],
    harnesses={
        'c06_bits': dict(props=['C06']),
        'c06_seq_dequeue': dict(props=['C06'], **_CH_STUB),
        'c06_seq_enqueue': dict(props=['C06'], **_CH_STUB),
    })
UNITS['channel'] = dict(
    name='channel', engine='kani', crate='.', inject=[('src/low_level/channel.rs', K + 'channel.rs')], flags=['-Z', 'stubbing', '-Z', 'restrict-vtable'],
    harnesses={
        'c06_new': dict(props=['C06'], **_CH_STUB),
        'c06_seq_send': dict(props=['C06', 'C07', 'C08', 'C10'], auto_obl='C08.NO-PANIC', unwind_obl='C08.FROZEN', **_CH_STUB),
        'c06_seq_recv': dict(props=['C06', 'C07', 'C08', 'C10'], auto_obl='C08.NO-PANIC', unwind_obl='C08.FROZEN', **_CH_STUB),
        'c07_drop_channel': dict(props=['C07']),
        'c07_send_sync_bounds': dict(props=['C07']),
        'c08_frozen_send': dict(props=['C06', 'C07', 'C08', 'C10', 'C03'], auto_obl='C08.NO-PANIC', unwind_obl='C08.FROZEN', **_CH_STUB),
        'c08_frozen_recv': dict(props=['C06', 'C07', 'C08', 'C10', 'C03'], auto_obl='C08.NO-PANIC', unwind_obl='C08.FROZEN', **_CH_STUB),
        'c08_rg_send_k2': dict(props=['C06', 'C07', 'C08', 'C10', 'C03'], auto_obl='C08.NO-PANIC', unwind_obl='C08.BOUNDED', **_CH_STUB),
        'c08_rg_recv_k2': dict(props=['C06', 'C07', 'C08', 'C10', 'C03'], auto_obl='C08.NO-PANIC', unwind_obl='C08.BOUNDED', **_CH_STUB),
        'c08_rg_send_k4': dict(props=['C06', 'C07', 'C08', 'C10'], tier='thorough', auto_obl='C08.NO-PANIC', unwind_obl='C08.BOUNDED', **_CH_STUB),
        'c08_rg_recv_k4': dict(props=['C06', 'C07', 'C08', 'C10'], tier='thorough', auto_obl='C08.NO-PANIC', unwind_obl='C08.BOUNDED', **_CH_STUB),
    })
FQ = 'channel.rs: '
obl('C06.BITS', FQ + 'get, set', 'field algebra of the packed queue, all u16 x idx<5 x v<=7, incl. positions 3-4')
obl('C06.DEQ', FQ + 'dequeue', 'sequential: pop-front on every well-formed word; None iff empty, unchanged')
obl('C06.ENQ', FQ + 'enqueue', 'sequential: push-back on every well-formed non-full word')
obl('C06.NEW', FQ + 'Channel::new', 'empty=[1,2,3,4,5], full=[], cells None')
obl('C06.SEND', FQ + 'Channel::send', 'from every invariant state (frozen env): first free slot gets exactly the value and is appended behind all queued values; no other cell touched', also=['C10'])
obl('C06.RECV', FQ + 'Channel::recv', 'from every invariant state (frozen env): oldest value returned, order of the rest kept, slot freed, None iff nothing queued', also=['C10'])
obl('C06.FULL-ONLY-WHEN-5', FQ + 'Channel::send', 'a send is discarded only if it observed the free queue empty (5 indices queued or in flight)')
obl('C06.EMPTY-ONLY-WHEN-EMPTY', FQ + 'Channel::recv', 'None only if it observed the full queue empty')
obl('C06.ATOMIC', FQ + 'enqueue, dequeue, send, recv', 'under arbitrary interference: every effect on a queue word is one successful CAS that is a pop-front/push-back of the expected value; a call has exactly the pops/pushes of its specification', also=['C07', 'C08', 'C10'])
obl('C06.OWN', FQ + 'enqueue', 'only an index this operation owns is enqueued', also=['C07', 'C08'])
obl('C06.G-INV', FQ + 'send, recv', 'every step of the code preserves the channel invariant (well-formed words, disjoint index sets, full => cell Some)', also=['C07', 'C08'])
obl('C06.NO-STORE', FQ + 'all', 'no plain store/swap on a queue word', never=True, absent_ok=r'Atomic :: < u16 > :: store -> u16_store')
obl('C07.G-ACQ', FQ + 'dequeue', 'taking CAS has success ordering >= Acquire', also=['C06'])
obl('C07.G-REL', FQ + 'enqueue', 'publishing CAS has success ordering >= Release', also=['C06'])
obl('C07.EMPTY-MEANS-NONE', FQ + 'recv', 'an index goes back to `empty` only with its cell None (otherwise the next send overwrites an untaken value)', also=['C06', 'C10'])
obl('C07.OWN-CELL', FQ + 'send, recv', 'cells are accessed only while their index is owned; exactly one cell access per effective call')
obl('C07.DROP-ONCE', FQ + 'send', 'a discarded value is dropped exactly once')
obl('C07.NO-EARLY-DROP', FQ + 'send, recv', 'successful send / recv drop nothing')
obl('C07.TAKE', FQ + 'recv', 'value moved out, cell None afterwards')
obl('C07.DROP-CHANNEL', FQ + 'drop glue of Channel', 'every stored value dropped exactly once')
obl('C07.SENDSYNC', FQ + 'unsafe impl Send/Sync', 'bounds T: Send kept (type-checked)')
obl('C08.FROZEN', FQ + 'send, recv, enqueue, dequeue', 'frozen environment, every invariant state (incl. nested-in-flight indices): all loops terminate within the unwinding bound (complete)', also=['C03'])
obl('C08.BOUNDED', FQ + 'send, recv', 'with interference before every access and <= K failed CAS: terminates within K+2 iterations', kind='bounded(K=2 quick, 4 thorough failed CAS per call)')
obl('C08.NO-PANIC', FQ + 'send, recv', 'no panic, overflow, out-of-bounds from any invariant state')
obl('C08.NO-PANIC-EXPECT', FQ + 'enqueue, recv', 'neither expect("No empty slot available") nor expect("Full slot with nothing in it") can fail (Kani reports both through core::option::expect_failed)', never=True)
obl('C08.NO-LEAK-INDEX', FQ + 'send, recv', 'on return no index is held')
obl('C08.RETRY-ONLY-ON-CAS-FAIL', FQ + 'send, recv', 'atomic ops = 1 load + (fails+1) CAS per queue operation: no waiting loop', also=['C03'])
_T = L('A1', 'A7', 'A8', 'A10')
PROPS['C06'] = dict(level='proof', units=['channel', 'channel_priv'], trusted=_T + ['linearizability / per-producer order from C06.ATOMIC + sequential contracts is the lemma L-FIFO (argument in DESIGN.md, not machine-checked)'],
    technique='function contracts + rely/guarantee environment stubs on the real channel.rs, Kani/CBMC',
    explanation='Sequential FIFO contracts of get/set/enqueue/dequeue/send/recv proved from every invariant state; under an environment that havocs the shared words to any invariant state before every access, each effect of the real code is proved to be a single CAS that is a push/pop of the expected value.')
PROPS['C07'] = dict(level='proof', units=['channel'], trusted=_T + ['happens-before itself is the C11 axiom (A1); proved: the code meets its premises (orderings, ownership)'],
    technique='rely/guarantee ownership + ordering obligations and destructor-counting payload, Kani/CBMC',
    explanation='Ownership of cells, Acquire/Release on every taking/publishing CAS, and exactly-once drop proved on the real code.')
PROPS['C08'] = dict(level='proof', units=['channel'], trusted=_T,
    technique='termination under frozen/budgeted environment with unwinding assertions + panic reachability, Kani/CBMC',
    explanation='From every state satisfying the invariant (including suspended outer operations) send/recv terminate without panic; frozen environment complete, interference bounded by K failed CAS.')

# --------------------------------------------------------------------------------------------
UNITS['half_lock_priv'] = dict(
    name='half_lock_priv', engine='kani', crate='signal-hook-registry',
    inject=[('signal-hook-registry/src/half_lock.rs', K + 'half_lock.rs'), ('signal-hook-registry/src/half_lock.rs', K + 'half_lock_priv.rs', 'verif_kani_priv')], flags=FFI,
    harnesses={
        'c01_update_seen': dict(props=['C01', 'C18']),
        'c01_write_barrier_k3': dict(props=['C01', 'C18'], unwind_obl='C18.BARRIER-BOUNDED'),
        'c18_quiescent': dict(props=['C18', 'C01'], unwind_obl='C18.QUIESCENT'),
    })
UNITS['half_lock'] = dict(
    name='half_lock', engine='kani', crate='signal-hook-registry', inject=[('signal-hook-registry/src/half_lock.rs', K + 'half_lock.rs')], flags=FFI,
    scan=[K + 'libc_model.rs'],
    harnesses={
        'c01_read': dict(props=['C01', 'C03', 'C18']),
        'c18_read_balanced': dict(props=['C18', 'C01']),
        'c01_store': dict(props=['C01', 'C18'], unwind_obl='C18.BARRIER-BOUNDED'),
        'c01_write_guard': dict(props=['C01', 'C18']),
    })
FH = 'half_lock.rs: '
obl('C01.R-ORDER', FH + 'HalfLock::read', 'ghost trace is exactly [load generation, fetch_add lock[g%2], load data] in this order, nothing else')
obl('C01.R-SLOT', FH + 'HalfLock::read', 'the slot incremented is generation%2, by 1')
obl('C01.R-SEQCST', FH + 'HalfLock::read, update_seen', 'all half-lock accesses SeqCst')
obl('C01.R-PTR', FH + 'HalfLock::read', 'guard.data is the pointer loaded after the increment')
obl('C01.R-DEC', FH + 'ReadGuard::drop', 'exactly one fetch_sub(1) on the slot that was incremented (whatever the generation is by then)', also=['C18'])
obl('C18.R-BALANCED', FH + 'read + ReadGuard::drop', 'over read() and the drop of its guard the increments and decrements of each reader slot cancel exactly, for arbitrary counter values and a writer flipping the generation up to twice during the call (a leaked increment wedges every later writer in the barrier)', kind='bounded(<= 2 generation flips during the call)', also=['C01'])
obl('C01.U-STEP', FH + 'HalfLock::update_seen', 'one pass: one load per not-yet-drained slot')
obl('C01.W-ZERO', FH + 'HalfLock::write_barrier', 'returns only after each slot was observed 0 since the swap')
obl('C01.S-ORDER', FH + 'WriteGuard::store', 'swap(new) first; free(old) last and only after the barrier (both zero seen, flip done)')
obl('C01.S-FREE-ONCE', FH + 'WriteGuard::store', 'exactly the old box is freed, exactly once')
obl('C01.S-VIEW', FH + 'WriteGuard::store', 'guard and later readers see the new snapshot')
obl('C01.WG-LOAD', FH + 'HalfLock::write', 'one pointer load, no other effect')
obl('C01.NO-STORE', FH + 'all', 'counters/generation never plainly stored', never=True, absent_ok=r'Atomic :: < usize > :: store -> usize_store')
obl('C01.S-SWAP', FH + 'all', 'data pointer never plainly stored', never=True, absent_ok=r'Atomic :: < \* mut T > :: store -> ptr_store')
obl('C03.READ-WAITFREE', FH + 'HalfLock::read, ReadGuard::drop', 'read side = 3+1 atomic ops, never frees / yields / spins / locks')
obl('C18.STICKY', FH + 'HalfLock::update_seen', "seen'[i] == seen[i] || loaded_i == 0, full domain")
obl('C18.FLIP-ONCE', FH + 'HalfLock::write_barrier', 'exactly one odd SeqCst generation increment')
obl('C18.FLIP-BEFORE-WAIT', FH + 'HalfLock::write_barrier', 'flip precedes the waiting loop')
obl('C18.QUIESCENT', FH + 'HalfLock::write_barrier', 'counters 0 and no interference: returns after one pass, no yield/spin (complete, unwinding assertions)')
obl('C18.BARRIER-BOUNDED', FH + 'HalfLock::write_barrier, WriteGuard::store', 'terminates within K+2 passes when at most K loads answer non-zero', kind='bounded(K=3 non-zero answers; step proved unbounded by C18.STICKY)')
obl('C18.POISON-OK', FH + 'HalfLock::write', 'returns a working guard when the mutex is poisoned (native stand-in: Kani has no unwinding)', kind='bounded(native execution; the obligation has no input domain)')
UNITS['native_half_lock'] = dict(name='half_lock_poison', engine='static', module='native_unit', entry='run_native', source=_V + '/native/half_lock_poison.rs')
obl('C18.MUTEX-HELD', FH + 'HalfLock::write', 'mutex held while the guard lives')
obl('C18.MUTEX-RELEASED', FH + 'WriteGuard drop glue', 'mutex released on guard drop')
PROPS['C01'] = dict(level='proof', units=['half_lock', 'registry'], trusted=L('A1', 'A2', 'A7', 'A8', 'A9', 'A10'),
    technique='trace contracts on the real half_lock.rs under an environment that havocs counters and generation before every access, Kani/CBMC',
    explanation='Reader protocol order, barrier post-condition (both slots seen zero after the swap), swap-barrier-free order and free-exactly-once are proved on the real code for arbitrary counter/generation values; the whole-program quiescence theorem follows by the L-RCU argument in DESIGN.md.')
PROPS['C18'] = dict(level='other', units=['half_lock', 'half_lock_priv', 'native_half_lock', 'registry'], trusted=L('A1', 'A2', 'A7', 'A8', 'A10') + ['fairness-based liveness (every fair execution terminates) is not decidable by contracts; proved are the obligations the termination argument rests on'],
    technique='progress obligations (sticky seen flags, single flip before waiting, poison tolerance, quiescent termination) as contracts on the real half_lock.rs, Kani/CBMC',
    explanation='Contracts prove the safety-shaped obligations that the termination argument needs; termination itself is proved for a quiescent environment (complete) and for <= K non-zero answers (bounded).')

# --------------------------------------------------------------------------------------------
UNITS['backend'] = dict(
    name='backend', engine='kani', crate='.', inject=[('src/iterator/backend.rs', K + 'backend.rs')], flags=FFI,
    scan=[K + 'libc_model.rs'], timeout={'quick': 1500, 'thorough': 3600},
    harnesses={
        'c09_action': dict(props=['C09', 'C10', 'C03']),
        'c10_signal_only': dict(props=['C10']),
        'c10_signal_only_atomic': dict(props=['C10']),
        'c10_pending_next': dict(props=['C10', 'C09']),
        'c09_pending_drain': dict(props=['C09']),
        'c11_close': dict(props=['C11']),
        'c11_poll_pending': dict(props=['C11', 'C09']),
        'c11_closed_before_call': dict(props=['C11']),
    })
# Kani 0.68 crashes (internal compiler error) with -Z restrict-vtable on `self: Arc<Self>` methods of a
# dyn trait (AddSignal::add_signal), so the harnesses that go through Handle::add_signal run without it
_NOVT = [f for f in FFI if f != 'restrict-vtable'][:-1]
UNITS['backend_c12'] = dict(
    name='backend_c12', engine='kani', crate='.', inject=[('src/iterator/backend.rs', K + 'backend.rs')], flags=_NOVT,
    scan=[K + 'libc_model.rs'], timeout={'quick': 1500, 'thorough': 3600},
    harnesses={
        'c12_retry_raw': dict(props=['C12'], tier='thorough', kind='bounded', bound='bounded(one representative accepted signal, SIGUSR1, on the real 128-entry table)', panic_map=[(r'Init called multiple times', 'C12.RETRY')]),
        'c12_add_signal_rejected': dict(props=['C12', 'C14'], expected_panics=r'index out of bounds|assertion failed: signal >= 0|Signal number|out of range|too large|placeholder message'),
    })
# control-flow harnesses on a scratch copy with the slot table shortened (mechanical rewrite, stated)
_SMALL = "bounded(slot table shortened from 128 to 4 entries by a mechanical rewrite of `const MAX_SIGNUM` in the scratch copy; same code otherwise)"
UNITS['backend_small'] = dict(
    name='backend_small', engine='kani', crate='.', inject=[('src/iterator/backend.rs', K + 'backend.rs')], flags=FFI,
    rewrite=[('src/iterator/backend.rs', r'const MAX_SIGNUM: usize = 128;', 'const MAX_SIGNUM: usize = 4;', 1)],
    scan=[K + 'libc_model.rs'], timeout={'quick': 1500, 'thorough': 3600},
    harnesses={
        'c11_poll_signal_idle_f': dict(props=['C11', 'C09', 'C10'], kind='bounded', bound=_SMALL),
        'c11_poll_signal_idle_e': dict(props=['C11', 'C09', 'C10'], kind='bounded', bound=_SMALL),
        'c11_poll_signal_idle_tf': dict(props=['C11', 'C09', 'C10'], kind='bounded', bound=_SMALL),
        'c11_poll_signal_marked_f': dict(props=['C11', 'C09', 'C10'], kind='bounded', bound=_SMALL),
        'c11_poll_signal_marked_tf': dict(props=['C11', 'C09', 'C10'], kind='bounded', bound=_SMALL),
        'c11_poll_signal_idle_ttf': dict(props=['C11', 'C09', 'C10'], tier='thorough', kind='bounded', bound=_SMALL),
        'c11_poll_signal_sym': dict(props=['C11', 'C09', 'C10'], kind='bounded', bound=_SMALL + ' - every callback schedule of <= 3 answers, symbolic slot state'),
        'c11_poll_signal_marked_te': dict(props=['C11', 'C09', 'C10'], tier='thorough', kind='bounded', bound=_SMALL),
    })
UNITS['backend_small_c12'] = dict(
    name='backend_small_c12', engine='kani', crate='.', inject=[('src/iterator/backend.rs', K + 'backend.rs')], flags=_NOVT,
    rewrite=[('src/iterator/backend.rs', r'const MAX_SIGNUM: usize = 128;', 'const MAX_SIGNUM: usize = 4;', 1)],
    scan=[K + 'libc_model.rs'], timeout={'quick': 1500, 'thorough': 3600},
    harnesses={
        'c12_add_and_drop': dict(props=['C12', 'C14', 'C10'], kind='bounded', bound=_SMALL),
        'c12_retry_raw_small': dict(props=['C12'], kind='bounded', bound=_SMALL, panic_map=[(r'Init called multiple times', 'C12.RETRY')]),
        'c12_ctor_clean': dict(props=['C12'], kind='bounded', bound=_SMALL),
        'c12_handle_outlives': dict(props=['C12'], kind='bounded', bound=_SMALL),
    })
FB = 'backend.rs: '
obl('C09.SETUP', FB + 'PendingSignals::add_signal', 'accepted signal + registry Ok => Ok')
obl('C09.STORE-THEN-WAKE', FB + 'action closure of PendingSignals::add_signal', 'per delivery: exactly [slot store, send(write_fd,_,1,MSG_DONTWAIT)] in this order', also=['C03'])
obl('C09.RIGHT-SLOT', FB + 'action closure', 'the slot written is slots[registered signal]', also=['C10'])
obl('C09.SCAN-ALL', FB + 'Pending::next', 'no slot at or after the position is skipped; None only at the end')
obl('C09.DRAIN-THEN-SCAN', FB + 'SignalDelivery::pending, flush', 'all recv()s precede the first slot examination; scan restarts at 0; drain stops at first recv <= 0', kind='bounded(K=2 successful recv per drain)')
obl('C09.DRAIN-NONBLOCK', FB + 'SignalDelivery::flush', 'recv on the read end with MSG_DONTWAIT only')
obl('C09.POLL-MAP', FB + 'SignalDelivery::poll_pending, SignalIterator::poll_signal', 'callback answers map to None / Some(batch after drain) / Err')
obl('C10.REGISTERED-SIG', FB + 'PendingSignals::add_signal', 'registers for the requested number')
obl('C10.ONLY-OWN-SLOT', FB + 'action closure', 'after deliveries of one signal only its own slot is marked (all 128 checked)')
obl('C10.SET-ONLY', 'exfiltrator/mod.rs: SignalOnly::store', 'a delivery only stores true')
obl('C10.CLEAR', 'exfiltrator/mod.rs: SignalOnly::load', 'Some(sig) iff the slot was marked; the mark is consumed atomically; at most one report per mark')
obl('C10.CLEAR-ATOMIC', 'exfiltrator/mod.rs: SignalOnly::load', 'exactly one atomic RMW on the slot, no separate load/store')
obl('C09.NO-DRAIN-AFTER-SCAN', FB + 'SignalIterator::poll_signal', 'a drain during the call is always followed by a scan from slot 0 before Signal/Pending is reported', kind='bounded(table of 4; every callback schedule of <= 3 answers - harness c11_poll_signal_sym - plus concrete schedules)')
obl('C10.INDEX-IS-SIG', FB + 'Pending::next', 'yields the first marked slot >= position as its own index')
obl('C10.ADVANCE-ON-NONE', FB + 'Pending::next', 'position advances only past slots that reported None (a slot that queues several deliveries is re-examined until it is empty)', also=['C09'])
obl('C10.POLL-REAL', FB + 'SignalIterator::poll_signal', 'Signal(s) only for a marked slot s')
obl('C11.OPEN-INITIALLY', FB + 'Handle::is_closed', 'new instance is open')
obl('C11.STICKY', FB + 'Handle::close', 'only true is ever stored to the closed flag, SeqCst; all handles see it')
obl('C11.CLOSE-THEN-WAKE', FB + 'Handle::close', 'flag store precedes one non-blocking wake-up write')
obl('C11.NO-BLOCK-AFTER-CLOSE', FB + 'SignalDelivery::poll_pending', 'callback skipped only if closed was seen; then Ok(None) at once')
obl('C11.ONE-CALLBACK', FB + 'SignalDelivery::poll_pending', 'callback consulted at most once')
obl('C11.PENDING-ONLY-IF-ARMED', FB + 'SignalIterator::poll_signal', 'Pending => callback consulted during this call and last answer Ok(false); close() may land between any two loads', also=['C09'])
obl('C11.CLOSED-ONLY-IF-CLOSED', FB + 'SignalIterator::poll_signal', 'Closed => the flag was seen true')
obl('C12.ERR-PASSTHROUGH', FB + 'Handle::add_signal', 'Err iff registration failed')
obl('C12.REGISTER-ONCE', FB + 'Handle::add_signal', 'one registration attempt through the checked registry entry point, for the requested number', also=['C14'])
obl('C12.RETRY', FB + 'Handle::add_signal + exfiltrator/raw.rs: WithRawSiginfo::init', 'after Err the same add_signal again behaves like a first call (no "Init called multiple times" panic)')
obl('C12.IDEMPOTENT', FB + 'Handle::add_signal', 're-adding a watched signal: Ok, no registration')
obl('C12.ATOMIC-ADD', FB + 'Handle::add_signal', 'the id-table mutex is held while the registry is asked to register (lookup and store are one critical section)', kind='bounded(table/representative signal)', also=['C10'])
obl('C12.TABLE-RELEASED', FB + 'Handle::add_signal', 'table lock free on return', kind='bounded(table/representative signal)')
obl('C12.DROP-ALL', FB + 'DeliveryState::drop', 'unregister called exactly for the ids recorded, once each')
obl('C14.ITER-REFUSE', FB + 'Handle::add_signal', 'never returns normally for negative / >= 128 / forbidden numbers (all c_int)', never=True)
obl('C14.ITER-NO-REGISTER', FB + 'Handle::add_signal', 'the registry is never reached with a number outside 0..128')
_TI = L('A3', 'A4', 'A5', 'A7', 'A8', 'A10', 'A12')
PROPS['C09'] = dict(level='other', units=['backend_small', 'backend'], trusted=_TI + ['"obtains it at least once" / "never parked with an unreported signal and no wake-up outstanding" is a liveness/whole-history statement: lemma L-PIPE over the proved ordering obligations + kernel socket semantics, not machine-checked'],
    technique='ordering obligations (store-then-wake, drain-then-scan, scan-all) as trace contracts on the real backend.rs, Kani/CBMC',
    explanation='Proved: the action stores then wakes; the consumer drains then scans every slot from 0; poll_signal maps callback answers faithfully. The no-lost-wakeup theorem over these is argued in DESIGN.md.')
PROPS['C10'] = dict(level='proof', units=['backend', 'backend_small', 'channel', 'backend_small_c12'], trusted=_TI + ['counting argument yields <= clears <= sets <= deliveries composed from the per-operation contracts (DESIGN.md C10)', 'info-carrying exfiltrators: at-most-once and order are the channel contracts C06/C07; faithful copy checked in unit backend_raw'],
    explanation='Per-operation contracts: a delivery only sets its own slot; load clears atomically and echoes the slot index; next() yields exactly the first marked slot.')
PROPS['C11'] = dict(level='proof', units=['backend', 'backend_small'], trusted=_TI + ['a blocked reader returns because close() writes a wake-up byte (kernel semantics)', 'poll_signal harnesses: slot table shortened to 4, every callback schedule of at most 3 answers (symbolic) - bounded'],
    explanation='closed flag havoc-ed monotonically before every load (close() on another thread at any instant); sticky flag, close-then-wake, no callback after closed, Pending only if armed.')
obl('C12.CTOR-CLEAN', FB + 'SignalDelivery::with_pipe', 'first refused signal => Err; earlier registrations unregistered; (native) pipe descriptors closed')
obl('C12.SURVIVES-PANIC', FB + 'Handle::add_signal', 'after an addition rejected by panic (9 representative inputs): later add_signal Ok, re-add no-op, watched signals still delivered', kind='bounded(native execution, 9 inputs: -1, MIN, 128, MAX, KILL, STOP, ILL, FPE, SEGV)', also=['C14'])
obl('C12.DROP-NO-PANIC', FB + 'DeliveryState::drop', 'drop after a rejected addition does not panic, removes every registration and closes the pipe', kind='bounded(native execution, same 9 inputs)', also=['C14'])
obl('C12.RETRY-NATIVE', FB + 'Handle::add_signal + WithRawSiginfo::init', 'real OS refusal (signal 100) twice in a row returns Err twice', kind='bounded(native execution, 1 input)')
UNITS['native_c12'] = dict(name='c12_survive', engine='static', module='native_unit', entry='run_native', source=_V + '/native/c12_survive.rs',
                           deps='libc = "0.2"\nsignal-hook = { path = ".." }\n')
PROPS['C12'] = dict(level='other', units=['backend_c12', 'backend_small_c12', 'native_c12'], trusted=_TI + ['Kani cannot unwind: state after a caught panic is decided by native execution on 9 representative rejected inputs (bounded), not proved for all c_int'],
    technique='function contracts on add_signal/with_pipe/DeliveryState::drop (Kani) + native execution stand-in for post-panic state',
    explanation='add_signal over all accepted c_int with the registry answering Ok/Err nondeterministically, twice in a row; teardown unregisters exactly what was registered.')

# --------------------------------------------------------------------------------------------
_RS = 'signal-hook-registry/src/lib.rs'
_MAPRW = [(_RS, r'\A', '#![cfg_attr(kani, feature(allocator_api))]\n', 1),
          (_RS, r'use std::collections::hash_map::Entry;', '#[cfg(not(kani))] use std::collections::hash_map::Entry;\n#[cfg(kani)] use verif_kani::Entry;', 0),
          (_RS, r'use std::collections::\{BTreeMap, HashMap\};', '#[cfg(not(kani))] use std::collections::{BTreeMap, HashMap};\n#[cfg(kani)] use verif_kani::OrdMap as BTreeMap;\n#[cfg(kani)] use verif_kani::SmallMap as HashMap;', 0),
          (_RS, r'(?m)^use std::collections::HashMap;', '#[cfg(not(kani))] use std::collections::HashMap;\n#[cfg(kani)] use verif_kani::SmallMap as HashMap;', 0),
          (_RS, r'(?m)^use std::collections::BTreeMap;', '#[cfg(not(kani))] use std::collections::BTreeMap;\n#[cfg(kani)] use verif_kani::OrdMap as BTreeMap;', 0)]
_SHAPE_S = 'bounded(registry state: <= 2 signals, <= 1 action each, symbolic ids/next_id/signal numbers; inductive step, not a history)'
_SHAPE_L = 'bounded(registry state: 2 signals with <= 2 and <= 1 actions, symbolic ids/next_id/signal numbers; inductive step)'
UNITS['registry_hist'] = dict(
    name='registry_hist', engine='kani', crate='signal-hook-registry', inject=[('signal-hook-registry/src/lib.rs', K + 'registry_hist.rs'), ('signal-hook-registry/src/half_lock.rs', K + 'half_lock_contract.rs', 'verif_contract', 'pub(crate)')], flags=FFI,
    rewrite=_MAPRW, scan=[K + 'libc_model.rs'], timeout={'quick': 1800, 'thorough': 3600},
    harnesses={
        'c02_hist_order': dict(props=['C02', 'C05', 'C04'], kind='bounded', bound='bounded(one history shape: 3 actions on one symbolic signal, symbolic choice of the removed one)'),
        'c02_hist_order_concrete': dict(props=['C02', 'C05'], kind='bounded', bound='bounded(one concrete history: SIGUSR1, 3 actions, oldest removed, one re-registration)'),
        'c05_hist_two_signals': dict(props=['C05', 'C02', 'C04'], tier='thorough', kind='bounded', bound='bounded(one history shape: two symbolic signals)'),
        'c05_hist_reregister': dict(props=['C05', 'C02'], kind='bounded', bound='bounded(one history shape: register x2, remove one, register again)'),
    })
# experiment: the same harnesses on the REAL std HashMap/BTreeMap (no map rewrite)
UNITS['registry_real'] = dict(
    name='registry_real', engine='kani', crate='signal-hook-registry', inject=[('signal-hook-registry/src/lib.rs', K + 'registry.rs'), ('signal-hook-registry/src/half_lock.rs', K + 'half_lock_contract.rs', 'verif_contract', 'pub(crate)')], flags=FFI,
    rewrite=[(_RS, r'\A', '#![cfg_attr(kani, feature(allocator_api))]\n', 1)], harnesses={})
UNITS['registry'] = dict(
    name='registry', engine='kani', crate='signal-hook-registry', inject=[('signal-hook-registry/src/lib.rs', K + 'registry.rs'), ('signal-hook-registry/src/half_lock.rs', K + 'half_lock_contract.rs', 'verif_contract', 'pub(crate)')], flags=FFI,
    rewrite=_MAPRW, scan=[K + 'libc_model.rs'], timeout={'quick': 1500, 'thorough': 3600},
    harnesses={
        'c04_prev_execute': dict(props=['C04'], auto_obl='C04.EXEC-SAFE'),
        'c05_slot_new': dict(props=['C05', 'C04', 'C14']),
        'c14_registry_check_first': dict(props=['C14'], expected_panics=r'Attempted to register forbidden signal|placeholder message|assertion failed'),
        'c14_forbidden_list': dict(props=['C14']),
        # per-operation contracts from an arbitrary small registry state (WriteGuard::store replaced by its contract)
        'c05_op_unregister_small': dict(props=['C05', 'C02', 'C18', 'C01'], kind='bounded', bound=_SHAPE_S),
        'c05_op_unregister_signal_small': dict(props=['C05', 'C18', 'C01', 'C02'], kind='bounded', bound=_SHAPE_S),
        'c05_op_register_occupied_small': dict(props=['C05', 'C02', 'C18', 'C01'], kind='bounded', bound=_SHAPE_S),
        'c04_op_register_vacant': dict(props=['C04', 'C05', 'C18'], kind='bounded', bound=_SHAPE_S),
        'c02_op_handler': dict(props=['C02', 'C04', 'C03', 'C18'], kind='bounded', bound=_SHAPE_L, unwind_obl='C03.WAIT-FREE', auto_obl='C03.NO-PANIC'),
        'c02_op_handler_tiny': dict(props=['C02', 'C03'], kind='bounded', bound='bounded(registry state: one signal with one action, symbolic id / signal number)', unwind_obl='C03.WAIT-FREE', auto_obl='C03.NO-PANIC'),
        'c14_op_register_refused': dict(props=['C14', 'C18'], kind='bounded', bound=_SHAPE_S),
        'c05_op_unregister': dict(props=['C05', 'C02', 'C18', 'C01'], tier='thorough', kind='bounded', bound=_SHAPE_L),
        'c05_op_unregister_signal': dict(props=['C05', 'C18', 'C01', 'C02'], tier='thorough', kind='bounded', bound=_SHAPE_L),
        'c05_op_register_occupied': dict(props=['C05', 'C02', 'C18', 'C01'], tier='thorough', kind='bounded', bound=_SHAPE_L),
    })
FR = 'registry lib.rs: '
obl('C04.EXEC-NONE', FR + 'Prev::execute', 'SIG_DFL / SIG_IGN / 0: nothing is called (all sa_flags)')
obl('C04.EXEC-SAFE', FR + 'Prev::execute', 'never calls through anything but a real handler address; no panic (all verifier-generated checks inside execute hold)')
obl('C04.EXEC-ONE', FR + 'Prev::execute', 'handler without SA_SIGINFO: called once with (sig)')
obl('C04.EXEC-THREE', FR + 'Prev::execute', 'handler with SA_SIGINFO: called once with the same (sig, info, ctx) pointers')
obl('C04.PREV-FROM-SWAP', FR + 'Slot::new, register_unchecked_impl', 'slot.prev is the disposition returned by the installing sigaction call')
obl('C04.REG-ORDER', FR + 'register_unchecked_impl (vacant)', 'query -> publish fallback(Some(prev of this signal)) -> install -> publish slot; checked at the instant of each sigaction', kind='bounded(state shape)')
obl('C04.GAP-FREE', FR + 'register_unchecked_impl + handler', 'a delivery at the instant the install call returns runs the previous handler once and no action', kind='bounded(state shape)')
obl('C04.FIRST', FR + 'handler', 'previous handler runs before every action, once', kind='bounded(state shape)')
obl('C04.FALLBACK-ONLY-UNSLOTTED', FR + 'handler', 'no slot + fallback for this signal => chained once', kind='bounded(state shape)')
obl('C04.FALLBACK-MATCH', FR + 'handler', 'fallback of another signal / no fallback => nothing runs', kind='bounded(state shape)')
obl('C05.INSTALL-ONCE', FR + 'Slot::new, register_unchecked_impl', 'exactly one installing sigaction per first registration (query + install), none on later registrations')
obl('C05.FLAGS', FR + 'Slot::new', 'installs {handler, SA_RESTART|SA_SIGINFO}, asks for the old action, all c_int')
obl('C05.HANDLER-ADDR', FR + 'Slot::new', 'installed handler is the library dispatcher')
obl('C05.UNREG-IFF-LIVE', FR + 'unregister', 'result == (id.action in view[id.signal]) for symbolic id', kind='bounded(state shape)')
obl('C05.UNREG-SIGNAL', FR + 'unregister_signal', 'result == (view[sig] non-empty); exactly that key emptied; slots kept', kind='bounded(state shape)')
obl('C05.PUBLISH-IFF-CHANGED', FR + 'unregister, unregister_signal, register_unchecked_impl', 'store called once, under the writer mutex, iff the view changes', kind='bounded(state shape)', also=['C01', 'C02'])
obl('C05.ID-FRESH', FR + 'register_unchecked_impl, unregister*', 'returned id == next_id; next_id only ever +1 on publish; never decreases', kind='bounded(state shape)', also=['C02'])
obl('C05.REMOVE-ONLY-IT', FR + 'unregister, unregister_signal', 'whole-view postcondition: every other action and signal unchanged', kind='bounded(state shape)')
obl('C05.REG-OK', FR + 'register_unchecked_impl', 'occupied: cannot fail; vacant: Ok when both sigaction calls succeed', kind='bounded(state shape)')
obl('C05.REG-APPEND', FR + 'register_unchecked_impl', 'whole-view postcondition: view[sig] gains exactly the new id; nothing else changes', kind='bounded(state shape)')
obl('C02.COPY-UNDER-MUTEX', FR + 'unregister, unregister_signal, register_unchecked_impl', 'mutators never enter a reader section: the copy they modify is read under the writer mutex', kind='bounded(state shape)', also=['C01', 'C05'])
obl('C02.ONE-SNAPSHOT', FR + 'handler', 'exactly two reader sections per delivery: one on race_fallback, one on data', kind='bounded(state shape)')
obl('C04.FALLBACK-UNDER-DATA-LOCK', FR + 'register_unchecked_impl', 'the fallback store happens while the data write mutex is held', kind='bounded(state shape)')
obl('C02.ID-MONO', FR + 'register_unchecked_impl + handler', 'the newest action runs after all older ones of its signal', kind='bounded(state shape)')
obl('C02.ORDER', FR + 'handler', 'log of a delivery == actions of that signal in the snapshot, each once, in id order', kind='bounded(state shape)')
obl('C02.ONLY-SIG', FR + 'handler', 'actions of other signals never run', kind='bounded(state shape)')
obl('C03.READ-BALANCED', FR + 'handler', 'reader counts restored, no mutex touched', kind='bounded(state shape)')
obl('C03.WAIT-FREE', FR + 'handler', 'every loop of a delivery terminates within the unwinding bound from an arbitrary state: no loop waits for another thread (unwinding assertions)', kind='bounded(state shape)', also=['C02'])
obl('C03.NO-PANIC', FR + 'handler', 'no panic / overflow / out-of-bounds reachable inside a delivery', kind='bounded(state shape)')
obl('C03.NO-FREE', FR + 'handler', 'no last-reference drop (Arc::drop_slow never reached) inside a delivery', kind='bounded(state shape)')
obl('C03.NO-LOCK', FR + 'handler', 'Mutex::lock is never reached inside a delivery', never=True, absent_ok=r'Mutex :: < T > :: lock -> delivery_lock_stub')
obl('C03.NO-WAIT', FR + 'handler', 'yield_now / spin_loop never reached inside a delivery', never=True, absent_ok=r'yield_now -> delivery_wait_stub')
obl('C14.CHECK-FIRST', FR + 'register, register_sigaction (register_sigaction_impl)', 'forbidden signal => panic before GlobalData::ensure (nothing touched); all c_int')
obl('C14.REFUSE-OR-REGISTER', FR + 'all four entry points', 'never returns without either panicking or reaching the registry', never=True)
obl('C14.LIST', FR + 'FORBIDDEN', 'exactly {KILL, STOP, ILL, FPE, SEGV}, all c_int')
obl('C14.ERR-PROPAGATE', FR + 'Slot::new, Prev::detect, register_unchecked_impl', 'Err iff a sigaction call failed')
obl('C14.ERR-NO-PUBLISH', FR + 'register_unchecked_impl', 'refused registration: no data store, view and next_id unchanged, action never runs', kind='bounded(state shape)')
obl('C14.STAYS-USABLE', FR + 'register_unchecked_impl', 'locks released on the error path', kind='bounded(state shape)')
obl('C18.MUTATOR-RELEASES', FR + 'all mutators', 'return with both writer mutexes free and no reader section open', kind='bounded(state shape)')
obl('C18.LOCK-ORDER', FR + 'register_unchecked_impl', 'fallback lock taken and released inside the data lock', kind='bounded(state shape)')
obl('C18.NO-SELF-DEADLOCK', FR + 'all', 'a mutex is never requested while held by the same thread', never=True, absent_ok=r'Mutex :: < T > :: lock -> delivery_lock_stub')
_TR = L('A2', 'A3', 'A4', 'A5', 'A8', 'A9', 'A10', 'A11') + ['WriteGuard::store replaced by its contract (new value becomes the snapshot; old one released after the grace period) - proved separately on the real body (C01.S-*)', 'HashMap/BTreeMap replaced, in the scratch copy, by fixed-capacity vector maps with the same API (mechanical rewrite of the two use lines); every other line of lib.rs and half_lock.rs is the real code', 'per-operation contracts from an arbitrary bounded-shape state are the inductive step; the induction over histories and the linearization at the swap are by the argument in DESIGN.md']
PROPS['C02'] = dict(level='other', units=['registry'], trusted=_TR,
    technique='per-operation function contracts (whole-view postconditions) on the real mutators and dispatcher from an arbitrary bounded-shape registry state, Kani/CBMC',
    explanation='One snapshot per delivery, actions of that signal only, in id order (= registration order since ids are handed out increasing); mutators copy-modify-publish once under the writer mutex. Bounded state shape; histories by induction.')
PROPS['C04'] = dict(level='other', units=['registry'], trusted=_TR,
    technique='function contract of Prev::execute (complete) + ordering contract of the first registration checked at the instant of each sigaction call, Kani/CBMC',
    explanation='Prev::execute proved for all dispositions/flags; first registration publishes the fallback before installing and the slot after; a delivery injected at the install instant chains exactly once.')
PROPS['C05'] = dict(level='other', units=['registry'], trusted=_TR,
    technique='per-operation function contracts with whole-view postconditions on register/unregister/unregister_signal + complete contract of Slot::new, Kani/CBMC',
    explanation='Each operation, from an arbitrary bounded-shape state satisfying the invariant, changes the view exactly as the model says (ids fresh and increasing, only the addressed action removed, slots never removed, handler installed once with SA_RESTART|SA_SIGINFO).')
PROPS['C14'] = dict(level='proof', units=['registry', 'flag', 'pipe', 'backend_c12', 'backend_small_c12', 'native_c12'], trusted=_TR + L('A12'),
    technique='checks-before-effects contracts on every checked entry point over all c_int, Kani/CBMC',
    explanation='Registry entry points refuse forbidden numbers before touching global state; front-ends (flags, pipe, iterator) delegate to them with the same number (C15.SET-SIG, C13.REGISTER-ONCE, C12.REGISTER-ONCE/C14.ITER-*); OS refusals propagate without publishing.')

# --------------------------------------------------------------------------------------------
# Engine V on the real mutators (extracted mechanically on every run, see lib/verus_registry.py): unbounded
UNITS['registry_verus'] = dict(name='registry_verus', engine='verus', module='verus_registry', entry='run_registry', min_verified=12, rlimit=30,
    obligations=['C05.V-UNREG-IFF-LIVE', 'C05.V-PUBLISH-IFF-CHANGED', 'C05.V-REMOVE-ONLY-IT', 'C05.V-UNREG-SIGNAL', 'C05.V-REG-APPEND',
                 'C05.V-ID-FRESH', 'C05.V-INV', 'C05.V-NO-PANIC', 'C02.V-ID-MONO', 'C04.V-PREV-PUBLISHED', 'C14.V-ERR-NO-PUBLISH', 'C05.V-HISTORY', 'C05.V-INV-BASE', 'C04.V-REG-ORDER', 'C05.V-INSTALL-ONLY-NEW'])
FV = 'registry lib.rs (extracted text, Verus, every registry state satisfying Inv - unbounded): '
obl('C05.V-UNREG-IFF-LIVE', FV + 'unregister', 'result == (id.action is in the map of id.signal in the snapshot read under the writer mutex)')
obl('C05.V-PUBLISH-IFF-CHANGED', FV + 'unregister, unregister_signal, register_unchecked_impl', 'the guard publishes exactly once iff the view changes (never before, never twice; zero publications when the result is false)', also=['C01', 'C02'])
obl('C05.V-REMOVE-ONLY-IT', FV + 'unregister', 'whole-view postcondition: published view == old view with exactly id.action removed from id.signal; every other action, every other signal, prev and the key set unchanged', also=['C02'])
obl('C05.V-UNREG-SIGNAL', FV + 'unregister_signal', 'result == (the signal has at least one action); published view == old view with that signal\'s map emptied; the slot (and its prev) stays; everything else unchanged')
obl('C05.V-REG-APPEND', FV + 'register_unchecked_impl', 'on Ok: key set grows by at most the signal, every other signal unchanged, the signal\'s map gains exactly (new id -> the action passed in)', also=['C02'])
obl('C05.V-ID-FRESH', FV + 'register_unchecked_impl, unregister, unregister_signal', 'returned id == next_id of the snapshot read, published next_id == next_id + 1, the id is live for no signal; removals keep next_id', also=['C02'])
obl('C05.V-INV', FV + 'all three mutators', 'representation invariant (every id in any per-signal map < next_id) holds for every snapshot handed to store, assuming it for the snapshot read (inductive step)')
obl('C05.V-NO-PANIC', FV + 'all three mutators', 'no verifier-generated check on a line of the real code fails: assert!(insert(..).is_none()) cannot fire, no arithmetic overflow (under A9), no unwrap of None')
obl('C02.V-ID-MONO', FV + 'register_unchecked_impl', 'the new id is greater than every id already registered for that signal (BTreeMap iterates in key order => it runs last)', also=['C05'])
obl('C04.V-PREV-PUBLISHED', FV + 'register_unchecked_impl', 'occupied: the slot\'s prev is unchanged; vacant: the published slot is the one Slot::new returned for this signal')
obl('C04.V-REG-ORDER', FV + 'register_unchecked_impl (ghost trace of publications and of the sigaction call)', 'first registration of a signal: the race fallback for THIS signal is published first, while the data lock is held and nothing has been published on `data`; only then Slot::new installs the dispatcher; only then the slot is published - exactly these three events in this order')
obl('C05.V-INSTALL-ONLY-NEW', FV + 'register_unchecked_impl', 'a registration for a signal that already has a slot performs exactly one event: the publication of the new snapshot - no sigaction call, no change of the fallback', also=['C04'])
obl('C14.V-ERR-NO-PUBLISH', FV + 'register_unchecked_impl', 'at both early returns (`?` on Prev::detect / Slot::new) nothing has been published on `data`; the function has no other early return (syntactic side condition)')
obl('C05.V-INV-BASE', FV + 'GlobalData::ensure (the SignalData literal handed to HalfLock::new, extracted)', 'the first published snapshot is the empty registry and satisfies Inv (base case of the induction)')
obl('C05.V-HISTORY', 'lemmas over the postconditions above (verus/registry/lemmas.rs)', 'for every history of mutator calls of any length: Inv everywhere, next_id monotone, two successful registrations never return the same id, a new id was live in no earlier state, an id removed by unregister stays dead and every later unregister of it returns false and changes nothing (induction, machine-checked)')

FHI = 'registry lib.rs (public mutators + handler, history): '
obl('C02.HIST-ORDER', FHI + 'register_sigaction, unregister, handler', 'register x3, remove any one, register again: survivors run in registration order, newest last', kind='bounded(history shape)')
obl('C02.HIST-ONLY-SIG', FHI + 'handler', 'other signals\' actions never run', kind='bounded(history shape)')
obl('C05.HIST-ID-FRESH', FHI + 'register_sigaction', 'ids pairwise distinct across the history, also after removals', kind='bounded(history shape)')
obl('C05.HIST-UNREG', FHI + 'unregister', 'true for live, false for stale', kind='bounded(history shape)')
obl('C05.HIST-UNREG-SIGNAL', FHI + 'unregister_signal', 'true iff the signal had actions', kind='bounded(history shape)', tier='thorough')
obl('C05.HIST-INDEPENDENT', FHI + 'unregister_signal', 'other signals unaffected', kind='bounded(history shape)', tier='thorough')
obl('C05.HIST-INSTALL-ONCE', FHI + 'register_sigaction', 'query+install once per signal over the whole history', kind='bounded(history shape)')
obl('C04.HIST-STILL-CHAINED', FHI + 'handler', 'previous handler chained once per delivery even with zero actions', kind='bounded(history shape)', tier='thorough')
PROPS['C02']['units'] = ['registry', 'registry_hist']
PROPS['C05']['units'] = ['registry', 'registry_hist']
PROPS['C04']['units'] = ['registry']
PROPS['C04']['units_thorough'] = ['registry_hist']

PROPS['C03'] = dict(level='other', units=['half_lock', 'registry', 'pipe', 'flag', 'backend', 'channel'],
    trusted=_TR + L('A1', 'A7') + ['"never allocates or frees heap memory" is only covered as "never drops a last reference" (C03.NO-FREE) - a raw allocation inside a delivery cannot be observed: Kani implements the allocator in its C runtime and it cannot be stubbed', 'bounded steps "wherever every other thread is paused": the read side takes no value another thread must change (C03.READ-WAITFREE, C03.WAIT-FREE); validity of the snapshot it dereferences is C01'],
    technique='frame/trace contracts on the dispatcher and every built-in action (no lock, no wait, no last-reference drop, reader counts balanced, exactly one non-blocking system call), Kani/CBMC',
    explanation='The dispatcher, from an arbitrary bounded-shape registry state and arbitrary counter values, takes no lock, never yields/spins, terminates within the unwinding bound, drops no last reference and leaves the reader counts balanced; each built-in action is exactly its one atomic store / one non-blocking system call.')

UNITS['itermod'] = dict(
    name='itermod', engine='kani', crate='.', inject=[('src/iterator/mod.rs', K + 'itermod.rs')], flags=FFI,
    scan=[K + 'libc_model.rs'], harnesses={'c09_has_signals': dict(props=['C09', 'C11'], kind='bounded', bound='bounded(<= 3 reads per call)')})
obl('C09.HAS-SIGNALS', 'iterator/mod.rs: SignalsInfo::has_signals', 'one blocking 1-byte read of the read end, retried only on failure, EINTR never passed on; Ok(n>0) / Ok(false) on EOF / Err', kind='bounded(<= 3 reads)')

PROPS['C11']['units'] = ['backend', 'backend_small', 'itermod']
PROPS['C09']['units'] = ['backend_small', 'backend', 'itermod']
PROPS['C11']['trusted'] = PROPS['C11']['trusted'] + ['SignalsInfo::wait / Forever::next are four-arm matches over the proved poll_pending / poll_signal with the proved has_signals as callback; that composition is by reading']
PROPS['C09']['trusted'] = PROPS['C09']['trusted'] + ['SignalsInfo::wait / Forever::next compose poll_pending / poll_signal / has_signals by a four-arm match (by reading)']

UNITS['lemma_rcu'] = dict(name='lemma_rcu', engine='verus', module='verus_unit', entry='run_lemma', source=_V + '/verus/l_rcu.rs', obligations=['C01.L-RCU'], min_verified=5)
obl('C01.L-RCU', 'composition lemma over C01.R-ORDER / R-SLOT / R-DEC / S-ORDER / W-ZERO / S-FREE-ONCE', 'transition system whose steps are those trace contracts (any number of readers, any slot choice, SC interleaving, counter abstracted by the set of announced readers): in every reachable state no guard refers to a released snapshot and the current pointer is not released (inductive invariant, machine-checked)')
PROPS['C01']['units'] = ['half_lock', 'half_lock_priv', 'registry', 'lemma_rcu']
PROPS['C01']['trusted'] = L('A1', 'A2', 'A7', 'A9', 'A10') + ['the lemma L-RCU is machine-checked (Verus) at the level of the contracts; that the step relations of the lemma are exactly the contracts Kani proves is by reading (A8 narrowed to this link)', 'the reader counter is abstracted by the set of announced readers (inc/dec pairing proved: C01.R-SLOT, C01.R-DEC)']

UNITS['lemma_pipe'] = dict(name='lemma_pipe', engine='verus', module='verus_unit', entry='run_lemma', source=_V + '/verus/l_pipe.rs', obligations=['C09.L-PIPE'], min_verified=5)
obl('C09.L-PIPE', 'composition lemma over C09.STORE-THEN-WAKE / DRAIN-THEN-SCAN / NO-DRAIN-AFTER-SCAN / SCAN-ALL / C10.CLEAR-ATOMIC / C09.HAS-SIGNALS', 'transition system of any number of deliveries and one consumer (blocking read, drain, scan): the consumer is never blocked while a slot is marked unless a byte is in the pipe or the marking delivery has not written its byte yet (inductive invariant, machine-checked)')
PROPS['C09']['units'] = ['backend_small', 'backend', 'itermod', 'lemma_pipe']
PROPS['C09']['trusted'] = [t for t in PROPS['C09']['trusted'] if 'L-PIPE' not in t] + ['the safety half of the property (never parked with an unreported signal and nothing outstanding) is the machine-checked lemma L-PIPE over the proved ordering contracts; that its steps are those contracts is by reading; "obtains it at least once" additionally needs fairness of the consumer loop (not decidable here)']

UNITS['lemma_fifo'] = dict(name='lemma_fifo', engine='verus', module='verus_unit', entry='run_lemma', source=_V + '/verus/l_fifo.rs', obligations=['C06.L-FIFO'], min_verified=5)
obl('C06.L-FIFO', 'composition lemma over C06.ATOMIC / C06.OWN / C06.G-INV / C07.OWN-CELL / C07.EMPTY-MEANS-NONE', 'transition system of any number of senders/receivers whose steps are the successful CASes and owned cell accesses: received ++ still-queued == sent, in the order of the linearization points (push to / pop from `full`); a send finds no free index only if all five are queued or in flight (inductive invariant, machine-checked)')
PROPS['C06']['units'] = ['channel', 'channel_priv', 'lemma_fifo']
PROPS['C06']['trusted'] = L('A1', 'A7', 'A10') + ['linearizability: the lemma L-FIFO is machine-checked (Verus) over the step contracts; that its steps are exactly those contracts is by reading (A8 narrowed to this link)']

# registry_verus wiring (after all unit lists are final)
for _p in ('C05', 'C02', 'C04', 'C14', 'C01'):
    PROPS[_p]['units'] = PROPS[_p]['units'] + ['registry_verus']
_VT = ['Verus unit registry_verus: assumed contracts (verus/registry/prelude_a.rs, prelude_b.rs): WriteGuard::{deref,store} and HalfLock::write (real bodies proved against them by Kani: C01.S-*, C01.WG-LOAD), HashMap::get_mut (std), derived Clone of SignalData = same view, derived Ord of ActionId = numeric order, Slot::new / Prev::detect result shape (proved by Kani c05_slot_new), GlobalData::ensure; opaque stand-ins for `dyn Fn` actions and Arc',
       'Verus unit: Inv is ASSUMED for the snapshot read under the writer mutex and PROVED for every snapshot published (induction over publications; base case - the literal in GlobalData::ensure - proved: C05.V-INV-BASE); A9 assumed as `next_id < u128::MAX`',
       'Verus unit: machine integers are mathematical integers with explicit range obligations (overflow checks generated by Verus)']
for _p in ('C05', 'C02', 'C04', 'C14'):
    PROPS[_p]['trusted'] = PROPS[_p]['trusted'] + _VT
PROPS['C05']['level'] = 'proof'
PROPS['C05']['technique'] = 'whole-view function contracts + representation invariant + history induction on the real mutators (mechanically extracted text), Verus/Z3, unbounded; complete Kani contract of Slot::new; bounded Kani per-operation/history harnesses kept as cross-check and counterexample source'
PROPS['C05']['explanation'] = ('Verus proves, on the text of unregister / unregister_signal / register_unchecked_impl extracted from /repo on every run, for EVERY registry state satisfying the invariant '
    '(any number of signals, actions, any ids): the published view is exactly the model\'s (only the addressed action removed, other signals untouched, slots never removed, fresh increasing ids), one publication iff the view changes; '
    'and, by induction over histories of any length, ids are never reused and stale ids stay dead. Kani proves Slot::new installs the dispatcher once with SA_RESTART|SA_SIGINFO for all c_int. '
    'The delivery side of the model (what runs) is C02 and is bounded in state shape.')

# Engine V on the real dispatcher (extracted mechanically on every run, see lib/verus_dispatcher.py): unbounded
UNITS['dispatcher_verus'] = dict(name='dispatcher_verus', engine='verus', module='verus_dispatcher', entry='run_dispatcher', min_verified=4, rlimit=30,
    obligations=['C02.V-DISPATCH', 'C02.V-ONLY-THIS-SIGNAL', 'C04.V-PREV-FIRST-ONCE', 'C04.V-FALLBACK', 'C03.V-NO-PANIC'])
FD = 'registry lib.rs: handler (extracted text, Verus, every registry snapshot and fallback value - unbounded): '
obl('C02.V-DISPATCH', FD + 'whole-trace postcondition', 'the calls one delivery of `sig` makes are exactly: prev.execute of the slot of `sig` once, then every action of `sig` in THE ONE snapshot read, once each, in increasing id order (BTreeMap::values, vstd contract), nothing else - for any number of signals and actions', also=['C04'])
obl('C02.V-ONLY-THIS-SIGNAL', FD + 'no slot', 'no slot for `sig` in the snapshot: no action of any signal is called; nothing at all unless the fallback is for `sig`')
obl('C04.V-PREV-FIRST-ONCE', FD + 'slot present', 'the first call of the delivery is the previous handler saved in that slot, for this signal number, and it is called once - also when the slot has no actions')
obl('C04.V-FALLBACK', FD + 'slot absent', 'the race fallback is executed exactly once iff it is present and for this signal; never together with a slot')
obl('C03.V-NO-PANIC', FD + 'verifier-generated checks', 'no verifier-generated check on a line of the real dispatcher fails: no unwrap of None, no index or arithmetic failure (the dispatcher cannot panic on any snapshot; the NULL-siginfo abort branch is excluded: rewrite R4), and no call of HalfLock::write (writer mutex + barrier wait; its contract carries `requires false` in this unit). Anything outside the declared call vocabulary (get, read, HashMap::get, BTreeMap::values, Option::as_ref, Prev::execute, a call of an action) does not compile => undecided, never a silent pass', also=['C02'])
for _p in ('C02', 'C04', 'C03'):
    PROPS[_p]['units'] = PROPS[_p]['units'] + ['dispatcher_verus']
    PROPS[_p]['trusted'] = PROPS[_p]['trusted'] + ['Verus unit dispatcher_verus: assumed contracts (verus/dispatcher/prelude_h.rs, prelude_h2.rs): HalfLock::read returns a guard for SOME snapshot (validity while the guard lives is C01), GlobalData::get, ghost-trace contracts of Prev::execute (real body proved complete by Kani c04_prev_execute) and of a call of an action; vstd contracts of HashMap::get and BTreeMap::values (ascending key order); derived Ord of ActionId = numeric order; rewrites R1-R4 of the extraction (lib/verus_dispatcher.py), in particular the NULL-siginfo abort branch is not verified by this unit (Kani: c02_op_handler)']

# Engine V on the real poll_signal (extracted mechanically on every run, see lib/verus_pollsignal.py): unbounded schedules
UNITS['pollsignal_verus'] = dict(name='pollsignal_verus', engine='verus', module='verus_pollsignal', entry='run_pollsignal', min_verified=8, rlimit=30,
    obligations=['C09.V-FLUSH-NONBLOCKING', 'C09.V-FLUSH-DRAINS', 'C11.V-POLL-PENDING', 'C11.V-PENDING-ONLY-IF-ARMED', 'C11.V-CLOSED-REAL', 'C10.V-SIGNAL-FROM-SCAN', 'C11.V-ERR-FROM-CALLBACK', 'C09.V-POLL-PROTOCOL'])
FP = 'iterator/backend.rs: SignalIterator::poll_signal (extracted text, Verus, callees by contract, every number of loop iterations / callback answers / instants of close()): '
obl('C11.V-PENDING-ONLY-IF-ARMED', FP + 'ensures', 'Pending is returned only when the last steps were: readiness callback consulted and answered Ok(false), then one more load of the closed flag that returned false; never after poll_pending returned None because the instance was closed (the defect fixed by 7cdbcb2), never after a refreshed batch that was not re-polled', also=['C09'])
obl('C09.V-FLUSH-NONBLOCKING', 'iterator/backend.rs: SignalDelivery::flush (extracted text, Verus, any number of reads)', 'every system call of the drain is recv(<read end>, buf, len, MSG_DONTWAIT): it never blocks, whatever number of bytes is queued', also=['C11'])
obl('C09.V-FLUSH-DRAINS', 'iterator/backend.rs: SignalDelivery::flush (extracted text, Verus, any number of reads)', 'the drain goes on exactly as long as recv returns bytes: every result but the last is > 0 and the last is <= 0 (pipe observed empty, or an error) - for an unbounded number of reads (the Kani harness bounds it)')
obl('C11.V-POLL-PENDING', 'iterator/backend.rs: SignalDelivery::poll_pending (extracted text, Verus, every state of the closed flag / every callback answer)', 'closed (the one load of the flag returned true) => Ok(None) and the readiness callback is NOT consulted (it could block for ever); otherwise the callback is consulted exactly once: Ok(false) => Ok(None), Ok(true) => drain + fresh batch => Ok(Some), Err => Err; nothing else happens. This verified contract is what poll_signal sees at its call site', also=['C09'])
obl('C11.V-CLOSED-REAL', FP + 'ensures', 'Closed is returned only after a load of the closed flag returned true (the last event of the trace)')
obl('C10.V-SIGNAL-FROM-SCAN', FP + 'ensures', 'a reported signal is exactly the value the last scan step (Pending::next) returned; nothing is reported once the closed flag was seen set', also=['C11'])
obl('C11.V-ERR-FROM-CALLBACK', FP + 'ensures', 'Err is returned only as the callback\'s error, at once')
obl('C09.V-POLL-PROTOCOL', FP + 'call preconditions (verifier-generated checks on lines of the real code)', 'poll_pending - the only call that may block or park the caller - is made only immediately after a scan step that returned None (the current batch is exhausted) and never after the closed flag was seen set', also=['C11'])
for _p in ('C09', 'C10', 'C11'):
    PROPS[_p]['units'] = PROPS[_p]['units'] + ['pollsignal_verus']
    PROPS[_p]['trusted'] = PROPS[_p]['trusted'] + ['Verus unit pollsignal_verus: poll_pending is verified on its extracted body and used by contract in poll_signal; assumed contracts (verus/pollsignal/prelude_p.rs) of Handle::is_closed (monotone flag), Pending::next, SignalDelivery::pending (drain + new batch), get_read_mut and of a call of the readiness callback (each proved on the real bodies and the real 128-slot table by Kani: C11.STICKY, C09.SCAN-ALL, C10.ADVANCE-ON-NONE, C09.DRAIN-THEN-SCAN); stand-ins for the sealed Exfiltrator trait, AsRawFd, SignalDelivery (only `handle` is named); rewrites P0-P4 of the extraction; termination of the loop not verified']

# round 3: the delivery side (dispatcher) and the registration order are now discharged unboundedly by Verus on the extracted text
PROPS['C02']['level'] = 'proof'
PROPS['C02']['explanation'] = ('Verus proves on the text of the dispatcher `handler` extracted from /repo on every run, for EVERY snapshot (any number of signals and actions) and every fallback value: one delivery calls exactly the previous handler of that signal\'s slot once, then every action of that signal in the ONE snapshot it read, once each, in increasing id order, and nothing else (also at early returns: the contract is a requires/ensures pair). '
    'Verus proves on the extracted mutators that every registration gets an id above all ids of that signal (so id order = registration order), that each mutator publishes once iff the view changes and changes exactly the addressed action. '
    'That the snapshot a delivery reads is one a mutator published, and stays valid, is C01. Kani per-operation / history harnesses on the real crate (bounded state shape) stay as cross-check, as source of counterexamples, and for trees whose restructured code loses the Verus anchors.')
PROPS['C04']['level'] = 'proof'
PROPS['C04']['explanation'] = ('Kani proves Prev::execute complete (all dispositions / flags) and that Slot::new keeps the disposition returned by the installing sigaction call. Verus proves on the extracted dispatcher, for every snapshot: the slot\'s previous handler is the first call of every delivery and is called once, also with zero actions; without a slot the fallback is executed iff it is for this signal. '
    'Verus proves on the extracted register_unchecked_impl, for every registry state: first registration = fallback for this signal published, then the sigaction call, then the slot published (three events, this order, under the data lock); later registrations touch neither sigaction nor the fallback; the published slot carries the prev of Slot::new. '
    'The delivery landing between the sigaction call and the publication is covered by the Kani harness that injects it at that instant (bounded state shape) and by composing the two Verus contracts (fallback present and for this signal => executed once).')

# Engine V on the real Handle::add_signal (extracted mechanically on every run, see lib/verus_addsignal.py): every table state
UNITS['addsignal_verus'] = dict(name='addsignal_verus', engine='verus', module='verus_addsignal', entry='run_addsignal', min_verified=2, rlimit=30,
    obligations=['C12.V-ADD-IDEMPOTENT', 'C12.V-ADD-ERR-NO-CHANGE', 'C12.V-ADD-OK-RECORDS-ID', 'C12.V-ADD-NO-PANIC'])
FA = 'iterator/backend.rs: Handle::add_signal (extracted text, Verus, every state of the 128-entry id table, every signal in 0..128): '
obl('C12.V-ADD-IDEMPOTENT', FA + 'ensures', 'the signal is already in the set: Ok, no registration attempt, the table is unchanged')
obl('C12.V-ADD-ERR-NO-CHANGE', FA + 'ensures', 'a refused addition (the registration returns Err) leaves the table exactly as it was at lock acquisition, after exactly one registration attempt, for this signal - so the same call can be retried', also=['C14'])
obl('C12.V-ADD-OK-RECORDS-ID', FA + 'ensures', 'a successful addition makes exactly one registration, for this signal, under the table lock, and records exactly the id it returned at table[signal]; every other entry is unchanged (so Drop unregisters precisely what this instance registered)', also=['C10'])
obl('C12.V-ADD-NO-PANIC', FA + 'verifier-generated checks', 'for 0 <= signal < 128 no index or arithmetic check on a line of the real function fails (the documented panics are exactly the out-of-range inputs)')
for _p in ('C12', 'C14', 'C10'):
    PROPS[_p]['units'] = PROPS[_p]['units'] + ['addsignal_verus']
PROPS['C12']['trusted'] = PROPS['C12']['trusted'] + ['Verus unit addsignal_verus: stand-ins for Handle / DeliveryState / the id-table mutex and its guard (length 128, poison ignored by `unwrap_or_else(PoisonError::into_inner)`) / Arc / the two trait objects; assumed trace contract of <Arc<PendingSignals<E>>>::add_signal (real body under Kani contract); rewrites A0-A1; signals outside 0..128 are not covered by this unit (documented panics, decided natively)']
PROPS['C12']['technique'] = 'requires/ensures contract of the real Handle::add_signal on its mechanically extracted text for every table state (Verus/Z3) + checks-before-effects / clean-up trace contracts on the real backend.rs (Kani/CBMC, table of 4 or one signal of 128) + native executions for the post-panic scenarios'

# Engine V on the real HalfLock::write_barrier (extracted mechanically on every run, see lib/verus_barrier.py): unbounded waiting
UNITS['barrier_verus'] = dict(name='barrier_verus', engine='verus', module='verus_barrier', entry='run_barrier', min_verified=3, rlimit=30,
    obligations=['C01.V-BARRIER-ZERO', 'C18.V-FLIP-ONCE', 'C18.V-BARRIER-NO-PANIC'])
FB = 'half_lock.rs: HalfLock::write_barrier (extracted text, Verus, any number of waiting passes / any answers of the reader counters): '
obl('C01.V-BARRIER-ZERO', FB + 'ensures + loop invariant', 'the barrier returns only after EACH of the two reader slots was observed at zero by a load made during this barrier - for an unbounded number of passes in which readers keep a slot non-zero (the Kani run bounds them to 3)', also=['C18'])
obl('C18.V-FLIP-ONCE', FB + 'ensures + loop invariant', 'the generation is advanced exactly once per barrier, by an odd amount (new readers are sent to the other slot), before the waiting loop and never inside it (loop invariant flips == 1)', also=['C01'])
obl('C18.V-BARRIER-NO-PANIC', FB + 'verifier-generated checks', 'no arithmetic / index check on a line of the real function fails (`iter % YIELD_EVERY` with the extracted constant, wrapping counter)')
for _p in ('C01', 'C18'):
    PROPS[_p]['units'] = PROPS[_p]['units'] + ['barrier_verus']
    PROPS[_p]['trusted'] = PROPS[_p]['trusted'] + ['Verus unit barrier_verus: assumed contracts of update_seen (proved complete on the real body by Kani: C18.STICKY, C01.U-STEP), of the generation fetch_add, and of `Iterator::all` on the 2-element array (`verif_all`, rewrite W3: std semantics the installed Verus does not specify); stand-ins for HalfLock / AtomicUsize / yield / spin; termination of the waiting loop not verified (needs readers to leave: fairness)']

# quick tier must stay well under 900 s per check (vp check): the slowest bounded cross-check harnesses run in the thorough
# tier only for the properties whose unbounded Verus obligations supersede them
PROPS['C05']['quick_drop'] = ['c04_op_register_vacant', 'c05_op_register_occupied_small', 'c02_hist_order', 'c05_hist_reregister']
PROPS['C02']['quick_drop'] = ['c05_op_register_occupied_small', 'c05_op_unregister_signal_small', 'c02_hist_order', 'c05_hist_reregister']
PROPS['C01']['quick_drop'] = ['c05_op_register_occupied_small', 'c05_op_unregister_signal_small']
for _o in ('C05.REG-APPEND', 'C05.REG-OK', 'C02.ID-MONO', 'C02.HIST-ONLY-SIG'):
    OBLIGATIONS[_o]['tier'] = 'thorough'

UNITS['native_c05_hist'] = dict(name='c05_history', engine='static', module='native_unit', entry='run_native', source=_V + '/native/c05_history.rs',
                                deps='libc = "0.2"\nsignal-hook-registry = { path = "../signal-hook-registry" }\n')
obl('C05.NATIVE-HISTORY', 'registry public API (register, unregister, dispatcher via raise) - native stand-in', '421 API steps on two signals (targeted: remove newest / oldest, re-register, stale id; then fixed-seed random) agree with the reference model: ids unique, unregister true iff live, deliveries run exactly the live actions of the signal in registration order', kind='bounded(native execution, one deterministic history of 421 steps)', also=['C02'])
for _p in ('C05', 'C02'):
    PROPS[_p]['units'] = PROPS[_p]['units'] + ['native_c05_hist']
    PROPS[_p]['trusted'] = PROPS[_p]['trusted'] + ['native stand-in C05.NATIVE-HISTORY is an execution of one bounded history, not a proof; it exists for trees whose restructured code is beyond CBMC\'s budget and Verus\' anchors']

PROPS['C02']['technique'] = 'whole-trace function contract of the real dispatcher `handler` on its mechanically extracted text for every snapshot (Verus/Z3, unbounded: prev once, then each action of that signal once in id order, one snapshot) + unbounded Verus contracts of the mutators (single publication iff changed, id monotone, whole view) + Kani/CBMC per-operation contracts on the real crate from an arbitrary bounded-shape state as cross-check and counterexample source + bounded native history stand-in'
PROPS['C04']['technique'] = 'function contract of Prev::execute (complete, Kani) + Verus contract of the real dispatcher on its extracted text: prev first and once per delivery, fallback iff no slot and same signal (unbounded) + Verus: published slot keeps / carries the prev of Slot::new (unbounded) + ordering contract of the first registration checked at the instant of each sigaction call (Kani, bounded state shape)'
PROPS['C14']['technique'] = 'checks-before-effects contracts on every checked entry point over all c_int (Kani/CBMC) + Verus: nothing published at either early return of register_unchecked_impl (unbounded)'
PROPS['C01']['technique'] = PROPS['C01']['technique'] + ' + Verus: composition lemma L-RCU and single-publication contract of the mutators'
PROPS['C10']['technique'] = 'per-operation function contracts (set-only store, atomic test-and-clear, scan index = signal, channel FIFO) on the real backend.rs / exfiltrators / channel.rs, Kani/CBMC'
PROPS['C11']['technique'] = 'trace contracts under a monotonically havoc-ed closed flag (close() on another thread at any instant) on the real backend.rs, Kani/CBMC'
PROPS['C13']['technique'] = 'trace contracts against a libc model with a ghost descriptor (valid / socket / O_NONBLOCK) on the real pipe.rs, all fds / errnos, Kani/CBMC'
PROPS['C15']['technique'] = 'function contracts of the action closures built by the real flag::register* (captured through a registry stub), all values / statuses, Kani/CBMC'
PROPS['C16']['technique'] = 'call-sequence contract of emulate_default_handler against a transcribed signal(7) table, all c_int, Kani/CBMC'

# round 3: technique fields name the deciding methods including the Verus units on extracted text
PROPS['C01']['technique'] = PROPS['C01']['technique'] + ' + Verus: requires/ensures + loop invariant on the extracted HalfLock::write_barrier (both slots observed at zero, one flip) for an unbounded number of waiting passes'
PROPS['C03']['technique'] = PROPS['C03']['technique'] + ' + Verus on the extracted dispatcher: no verifier-generated check fails on any snapshot and HalfLock::write (precondition false) is unreachable'
PROPS['C09']['technique'] = 'ordering obligations (store-then-wake, drain-then-scan, scan-all) as trace contracts on the real backend.rs (Kani/CBMC) + Verus requires/ensures contracts with loop contracts on the extracted flush (any number of non-blocking reads), poll_pending (complete) and poll_signal (callees by contract, every callback schedule: Pending only when armed, poll only after an exhausted scan) + Verus composition lemma L-PIPE'
PROPS['C10']['technique'] = PROPS['C10']['technique'] + ' + Verus contracts on the extracted poll_signal (a reported signal is what the last scan step returned) and Handle::add_signal (records exactly the id it registered)'
PROPS['C11']['technique'] = 'trace contracts under a monotonically havoc-ed closed flag (close() on another thread at any instant) on the real backend.rs (Kani/CBMC) + Verus requires/ensures contracts on the extracted poll_pending (closed => callback not consulted; complete) and poll_signal (monotone closed flag as ghost state, loop contract: unbounded iterations and callback schedules)'
PROPS['C18']['technique'] = PROPS['C18']['technique'] + ' + Verus loop contract on the extracted write_barrier (exactly one flip, exit only with both slots seen at zero, unbounded passes) + Kani read/drop balance under generation flips'

