"""Replay of verifier counterexamples against the real code (native build of the scratch copy)."""
import os, re, shutil, subprocess, sys
import shv


def kani_playback(scratch, unit, harness, timeout_s=900):
    """Re-runs one harness with concrete playback; returns {check description: [bytes,...]}."""
    cwd = os.path.join(scratch.path, unit.get('crate', '.'))
    cmd = ['cargo', 'kani', '--output-format=terse', '-Z', 'concrete-playback', '--concrete-playback=print'] + [f.replace('{scratch}', scratch.path) for f in unit.get('flags', [])]
    if unit.get('features'):
        cmd += ['--features', unit['features']]
    cmd += ['--harness', harness]
    env = dict(os.environ, CARGO_NET_OFFLINE='true', CARGO_TERM_COLOR='never')
    rc, out, wall, to = shv.run_cmd(cmd, cwd, timeout_s, env)
    res = {}
    for blk in out.split('Concrete playback unit test for')[1:]:
        m = re.search(r'Check for `\w+`: "+(.*?)"+\s*$', blk, re.M)
        if not m:
            continue
        vals = [[int(x) for x in v.split(',') if x.strip()] for v in re.findall(r'vec!\[([0-9, ]*)\],', blk)]
        res[m.group(1)] = vals
    return res


def le_int(bs, signed=True):
    return int.from_bytes(bytes(bs), 'little', signed=signed)


def native_run(scratch, name, main_rs, features=None, timeout_s=600, args=()):
    """Builds a tiny crate that depends on the scratch copy of signal-hook by path and runs it."""
    d = os.path.join(scratch.path, 'zz_replay_' + name)
    os.makedirs(os.path.join(d, 'src'), exist_ok=True)
    feat = (', features = [%s]' % ', '.join('"%s"' % f for f in features)) if features else ''
    open(os.path.join(d, 'Cargo.toml'), 'w').write(
        '[package]\nname = "zz_replay_%s"\nversion = "0.0.0"\nedition = "2018"\n[workspace]\n[dependencies]\n'
        'signal-hook = { path = ".."%s }\nsignal-hook-registry = { path = "../signal-hook-registry" }\nlibc = "0.2"\n' % (name, feat))
    open(os.path.join(d, 'src', 'main.rs'), 'w').write(main_rs)
    if os.path.exists(os.path.join(scratch.path, 'Cargo.lock')):
        shutil.copy(os.path.join(scratch.path, 'Cargo.lock'), os.path.join(d, 'Cargo.lock'))
    env = dict(os.environ, CARGO_NET_OFFLINE='true', CARGO_TERM_COLOR='never')
    rc, out, wall, to = shv.run_cmd(['cargo', 'run', '--offline', '-q', '--'] + list(args), d, timeout_s, env)
    return rc, out


# ---- C16: default-action emulation vs the running kernel -----------------------------------
C16_MAIN = r'''
use std::env;
fn outcome(f: &dyn Fn()) -> String {
    unsafe {
        let pid = libc::fork();
        if pid == 0 {
            f();
            libc::_exit(0);
        }
        let mut st = 0;
        libc::waitpid(pid, &mut st, libc::WUNTRACED);
        if libc::WIFSTOPPED(st) {
            libc::kill(pid, libc::SIGKILL);
            libc::waitpid(pid, &mut st, 0);
            return "stopped".to_string();
        }
        if libc::WIFSIGNALED(st) { format!("killed by signal {}", libc::WTERMSIG(st)) } else { format!("continued (exit {})", libc::WEXITSTATUS(st)) }
    }
}
fn main() {
    let s: i32 = env::args().nth(1).unwrap().parse().unwrap();
    let kernel = outcome(&|| unsafe {
        libc::signal(s, libc::SIG_DFL);
        libc::raise(s);
    });
    let emulated = outcome(&|| { let _ = signal_hook::low_level::emulate_default_handler(s); });
    println!("signal {}: kernel default disposition => {}; emulate_default_handler => {}", s, kernel, emulated);
    std::process::exit(if kernel == emulated { 0 } else { 1 });
}
'''


def replay_c16_kind(ctx, obl, info, vals):
    if not vals:
        return None
    s = le_int(vals[0])
    rc, out = native_run(ctx['scratch'], 'c16', C16_MAIN, args=[str(s)])
    line = [l for l in out.splitlines() if l.startswith('signal ')]
    if rc == 1 and line:
        return 'REPLAYED on the real code (native build of this tree), input signal=%d:\n  %s\n  => outcomes differ: the property is violated for this input' % (s, line[0])
    return None


# ---- C17: Origin::extract on a synthetic siginfo ---------------------------------------------
C17_MAIN = r"""
use std::env;
use signal_hook::low_level::siginfo::{Origin, Cause};
fn main() {
    let a: Vec<i64> = env::args().skip(1).map(|x| x.parse().unwrap()).collect();
    let mut info: libc::siginfo_t = unsafe { std::mem::zeroed() };
    info.si_code = a[0] as i32;
    info.si_signo = a[1] as i32;
    unsafe {
        let base = &mut info as *mut libc::siginfo_t as *mut u8;
        *(base.add(16) as *mut i32) = a[2] as i32;
        *(base.add(20) as *mut u32) = a[3] as u32;
    }
    let o = unsafe { Origin::extract(&info) };
    println!("Origin::extract(si_code={}, si_signo={}, si_pid={}, si_uid={}) = signal {} cause {:?} process {:?}", a[0], a[1], a[2], a[3], o.signal, o.cause, o.process);
    let _ = Cause::Unknown;
}
"""


def c17_expect(code, signo):
    t = {0x80: 'Kernel', 0: 'Sent(User)', -6: 'Sent(TKill)', -1: 'Sent(Queue)', -3: 'Sent(MesgQ)'}
    if code in t:
        return t[code]
    if signo == 17 and 1 <= code <= 6:
        return 'Chld(%s)' % ['Exited', 'Killed', 'Dumped', 'Trapped', 'Stopped', 'Continued'][code - 1]
    return 'Unknown'


def replay_c17_rs(ctx, obl, info, vals):
    if not vals or len(vals) < 4:
        return None
    code, signo, pid = le_int(vals[0]), le_int(vals[1]), le_int(vals[2])
    uid = le_int(vals[3], signed=False)
    rc, out = native_run(ctx['scratch'], 'c17', C17_MAIN, features=['extended-siginfo'], args=[str(code), str(signo), str(pid), str(uid)])
    line = [l for l in out.splitlines() if l.startswith('Origin::extract(')]
    if not line:
        return None
    want = c17_expect(code, signo)
    wantp = 'None' if want in ('Unknown', 'Kernel') else 'Some(Process { pid: %d, uid: %d })' % (pid, uid)
    got = line[0]
    ok = ('signal %d cause %s process %s' % (signo, want, wantp)) in got
    if ok:
        return None
    return 'REPLAYED on the real code (native build of this tree):\n  %s\n  expected from the kernel-documented meaning: signal %d cause %s process %s' % (got, signo, want, wantp)


# ---- C11: poll_signal reports Pending without consulting the callback ---------------------------
C11_MAIN = r'''
use signal_hook::iterator::backend::{Handle, PollResult, SignalDelivery, SignalIterator};
use signal_hook::iterator::exfiltrator::SignalOnly;
use std::borrow::{Borrow, BorrowMut};
use std::os::unix::net::UnixStream;

// A scheduling point through public API: SignalIterator is generic over BorrowMut<SignalDelivery>;
// this wrapper calls close() (as another thread could) right before the n-th access.
struct Sched { sd: SignalDelivery<UnixStream, SignalOnly>, handle: Handle, n: usize, close_at: usize }
impl Borrow<SignalDelivery<UnixStream, SignalOnly>> for Sched { fn borrow(&self) -> &SignalDelivery<UnixStream, SignalOnly> { &self.sd } }
impl BorrowMut<SignalDelivery<UnixStream, SignalOnly>> for Sched {
    fn borrow_mut(&mut self) -> &mut SignalDelivery<UnixStream, SignalOnly> {
        self.n += 1;
        if self.n == self.close_at { self.handle.close(); }
        &mut self.sd
    }
}
fn main() {
    let mut bad = 0;
    for close_at in 1..8 {
        let (r, w) = UnixStream::pair().unwrap();
        let sd = SignalDelivery::with_pipe(r, w, SignalOnly, &[] as &[i32]).unwrap();
        let handle = sd.handle();
        let mut it = SignalIterator::new(Sched { sd, handle, n: 0, close_at });
        let mut consulted = 0;
        let mut last = "none";
        let res = it.poll_signal(&mut |_r: &mut UnixStream| { consulted += 1; last = "Ok(false)"; Ok(false) });
        let name = match res { PollResult::Pending => "Pending", PollResult::Closed => "Closed", PollResult::Signal(_) => "Signal", PollResult::Err(_) => "Err" };
        let violates = name == "Pending" && (consulted == 0 || last != "Ok(false)");
        println!("close() before access #{}: poll_signal => {} ; callback consulted {} time(s), last answer {}{}", close_at, name, consulted, last, if violates { "   <== VIOLATION: pending without an armed wake-up" } else { "" });
        if violates { bad += 1; }
    }
    std::process::exit(if bad > 0 { 1 } else { 0 });
}
'''


def replay_c11_armed(ctx, obl, info, vals):
    rc, out = native_run(ctx['scratch'], 'c11', C11_MAIN)
    lines = [l for l in out.splitlines() if l.startswith('close() before access')]
    if rc == 1 and any('VIOLATION' in l for l in lines):
        return 'REPLAYED on the real code (native build of this tree; the schedule "close() lands between the two is_closed loads" is forced through the public BorrowMut parameter of SignalIterator):\n  ' + '\n  '.join(lines)
    return None


# ---- C15: flags and conditional shutdown, replayed in forked children -----------------------------
C15_MAIN = r'''
use std::env;
use std::sync::atomic::{AtomicBool, AtomicUsize, Ordering};
use std::sync::Arc;
fn main() {
    let a: Vec<String> = env::args().skip(1).collect();
    let sig = signal_hook::consts::SIGUSR1;
    match a[0].as_str() {
        "usize" => {
            let prior: usize = a[1].parse().unwrap();
            let value: usize = a[2].parse().unwrap();
            let f = Arc::new(AtomicUsize::new(prior));
            signal_hook::flag::register_usize(sig, Arc::clone(&f), value).unwrap();
            unsafe { libc::raise(sig) };
            let got = f.load(Ordering::SeqCst);
            println!("register_usize(value={}) with the flag holding {} before the delivery: flag after the delivery = {}", value, prior, got);
            std::process::exit(if got == value { 0 } else { 1 });
        }
        "bool" => {
            let prior: bool = a[1] == "1";
            let f = Arc::new(AtomicBool::new(prior));
            signal_hook::flag::register(sig, Arc::clone(&f)).unwrap();
            unsafe { libc::raise(sig) };
            let got = f.load(Ordering::SeqCst);
            println!("flag::register with the flag holding {} before the delivery: flag after the delivery = {}", prior, got);
            std::process::exit(if got { 0 } else { 1 });
        }
        _ => {
            let cond: bool = a[1] == "1";
            let status: i32 = a[2].parse().unwrap();
            unsafe {
                let pid = libc::fork();
                if pid == 0 {
                    extern "C" fn hook() { unsafe { libc::_exit(77) } }
                    libc::atexit(hook);
                    signal_hook::flag::register_conditional_shutdown(sig, status, Arc::new(AtomicBool::new(cond))).unwrap();
                    libc::raise(sig);
                    libc::_exit(99); // the delivery returned
                }
                let mut st = 0;
                libc::waitpid(pid, &mut st, 0);
                let got = if libc::WIFEXITED(st) { libc::WEXITSTATUS(st) } else { -1 };
                let want = if cond { status & 0xff } else { 99 };
                println!("register_conditional_shutdown(status={}) with the condition {}: child exit code {} (77 = an exit-time hook ran, 99 = the delivery returned), expected {}", status, cond, got, want);
                std::process::exit(if got == want { 0 } else { 1 });
            }
        }
    }
}
'''


def _c15(ctx, args):
    rc, out = native_run(ctx['scratch'], 'c15', C15_MAIN, args=args)
    line = [l for l in out.splitlines() if l.startswith('register_') or l.startswith('flag::')]
    if rc == 1 and line:
        return 'REPLAYED on the real code (native build of this tree):\n  %s\n  => differs from what the property demands' % line[0]
    return None


def replay_c15_value(ctx, obl, info, vals):
    # harness c15_flag_usize: any() order: initial flag value, value, [signal], ...
    if not vals or len(vals) < 2:
        return None
    prior, value = le_int(vals[0], signed=False), le_int(vals[1], signed=False)
    for pr in (prior, 12, 1):
        r = _c15(ctx, ['usize', str(pr), str(value)])
        if r:
            return r
    return None


def replay_c15_set(ctx, obl, info, vals):
    for pr in ('0', '1'):
        r = _c15(ctx, ['bool', pr])
        if r:
            return r
    return None


def replay_c15_shutdown(ctx, obl, info, vals):
    # harness c15_cond_shutdown: any() order: condition (bool), status (i32), ...
    cand = []
    if vals and len(vals) >= 2:
        cand.append((str(le_int(vals[0]) & 1), str(le_int(vals[1]))))
    cand += [('1', '0'), ('1', '3'), ('1', '258'), ('0', '5')]
    for c, s in cand:
        r = _c15(ctx, ['shutdown', c, s])
        if r:
            return r
    return None


# ---- C13: self-pipe registration on a full pipe / on an invalid descriptor --------------------------
C13_MAIN = r'''
fn main() {
    let sig = signal_hook::consts::SIGUSR2;
    let mode = std::env::args().nth(1).unwrap();
    unsafe {
        if mode == "invalid" {
            let r = signal_hook::low_level::pipe::register_raw(sig, 987);
            println!("register_raw(SIGUSR2, 987 /* not an open descriptor */) => {}", if r.is_ok() { "Ok (accepted)" } else { "Err (rejected)" });
            std::process::exit(if r.is_err() { 0 } else { 1 });
        }
        let mut fds = [0; 2];
        libc::pipe(fds.as_mut_ptr());
        // fill the pipe completely, then make it blocking again (as the application handed it over)
        let fl = libc::fcntl(fds[1], libc::F_GETFL, 0);
        libc::fcntl(fds[1], libc::F_SETFL, fl | libc::O_NONBLOCK);
        let buf = [0u8; 4096];
        while libc::write(fds[1], buf.as_ptr() as *const _, buf.len()) > 0 {}
        while libc::write(fds[1], buf.as_ptr() as *const _, 1) > 0 {}
        libc::fcntl(fds[1], libc::F_SETFL, fl);
        let pid = libc::fork();
        if pid == 0 {
            libc::alarm(3);
            signal_hook::low_level::pipe::register_raw(sig, fds[1]).unwrap();
            libc::raise(sig); // the delivery writes its byte into the full pipe
            libc::_exit(0);
        }
        let mut st = 0;
        libc::waitpid(pid, &mut st, 0);
        let blocked = libc::WIFSIGNALED(st) && libc::WTERMSIG(st) == libc::SIGALRM;
        println!("delivery with a completely full self-pipe: {}", if blocked { "the handler BLOCKED in write() (killed by the 3 s alarm)" } else { "returned promptly" });
        std::process::exit(if blocked { 1 } else { 0 });
    }
}
'''


def replay_c13(ctx, obl, info, vals):
    mode = 'invalid' if 'REJECT-INVALID' in obl else 'full'
    rc, out = native_run(ctx['scratch'], 'c13', C13_MAIN, args=[mode])
    line = [l for l in out.splitlines() if l.startswith('register_raw(') or l.startswith('delivery with')]
    if rc == 1 and line:
        return 'REPLAYED on the real code (native build of this tree):\n  %s\n  => violates the property' % line[0]
    return None


# ---- C05.FLAGS: what the library really installs ----------------------------------------------------
C05_MAIN = r'''
fn main() {
    let sig = signal_hook::consts::SIGUSR1;
    unsafe {
        signal_hook::low_level::register(sig, || ()).unwrap();
        let mut cur: libc::sigaction = std::mem::zeroed();
        libc::sigaction(sig, std::ptr::null(), &mut cur);
        let want = libc::SA_RESTART | libc::SA_SIGINFO;
        let got = cur.sa_flags & (libc::SA_RESTART | libc::SA_SIGINFO | libc::SA_RESETHAND | libc::SA_NODEFER);
        println!("after the first registration of SIGUSR1 the installed disposition has sa_flags = {:#x} (SA_RESTART {} , SA_SIGINFO {}); expected SA_RESTART|SA_SIGINFO = {:#x}", cur.sa_flags, if cur.sa_flags & libc::SA_RESTART != 0 { "set" } else { "MISSING" }, if cur.sa_flags & libc::SA_SIGINFO != 0 { "set" } else { "MISSING" }, want);
        std::process::exit(if got == want { 0 } else { 1 });
    }
}
'''


def replay_c05_flags(ctx, obl, info, vals):
    rc, out = native_run(ctx['scratch'], 'c05', C05_MAIN)
    line = [l for l in out.splitlines() if l.startswith('after the first registration')]
    if rc == 1 and line:
        return 'REPLAYED on the real code (native build of this tree):\n  %s' % line[0]
    return None


# ---- C16.SEQ-TERM / UNBLOCK: emulation from inside the signal's own handler ----------------------------
C16H_MAIN = r'''
fn main() {
    let sig = signal_hook::consts::SIGTERM;
    unsafe {
        let pid = libc::fork();
        if pid == 0 {
            signal_hook::low_level::register(sig, move || { let _ = signal_hook::low_level::emulate_default_handler(sig); }).unwrap();
            libc::raise(sig); // inside the handler SIGTERM is blocked
            libc::_exit(0);
        }
        let mut st = 0;
        libc::waitpid(pid, &mut st, 0);
        let how = if libc::WIFSIGNALED(st) { format!("killed by signal {}", libc::WTERMSIG(st)) } else { format!("exited with {}", libc::WEXITSTATUS(st)) };
        println!("emulate_default_handler(SIGTERM) called from inside SIGTERM's own handler: the process was {}; the kernel default is: killed by signal 15", how);
        std::process::exit(if libc::WIFSIGNALED(st) && libc::WTERMSIG(st) == sig { 0 } else { 1 });
    }
}
'''


def replay_c16_seq(ctx, obl, info, vals):
    rc, out = native_run(ctx['scratch'], 'c16h', C16H_MAIN)
    line = [l for l in out.splitlines() if l.startswith('emulate_default_handler(')]
    if rc == 1 and line:
        return 'REPLAYED on the real code (native build of this tree):\n  %s' % line[0]
    return None


# ---- C05 (Verus obligations give no counterexample): search a failing history on the real code ----------------
# Deterministic walk over the public registry API against the reference model of the property (per-signal ordered
# sets of unique ids): targeted patterns first (remove newest / re-register / stale id), then a fixed-seed random
# history. Prints the shortest prefix that disagrees with the model. Used ONLY to attach a concrete failing input
# to an obligation Verus has already refuted; finding nothing never changes the verdict.
C05H_MAIN = open(os.path.join(shv.VERIF, 'native', 'c05_history.rs')).read()



def replay_c05_history(ctx, obl, info, vals):
    rc, out = native_run(ctx['scratch'], 'c05h', C05H_MAIN)
    line = [l.split('FAIL ', 1)[1] for l in out.splitlines() if l.startswith('OBL C05.NATIVE-HISTORY FAIL')]
    if rc == 1 and line:
        return 'REPLAYED on the real code (native build of this tree; history found by a deterministic search over the public API against the reference model):\n  %s' % line[0][:3000]
    return None
