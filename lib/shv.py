#!/usr/bin/env python3
"""Driver library for contract-based verification of vorner/signal-hook.

Every check:
  1. copies /repo's *working tree* to a scratch directory (outside /repo and /verif),
  2. appends `#[cfg(kani)] #[path = ...] mod verif_kani;` lines (Kani), or extracts functions by
     name (Verus), or #includes the real C file (CBMC),
  3. runs the verifier, parses every check it generated,
  4. maps checks to registered obligations, writes evidence, prints VIOLATION lines.

Exit codes: 0 all obligations discharged, 1 at least one obligation refuted (VIOLATION),
2 undecided (lost anchor, compile error, timeout, vacuity guard tripped) -- never an alarm.
"""
import json, os, re, shutil, subprocess, sys, tempfile, time, hashlib

VERIF = os.path.dirname(os.path.dirname(os.path.abspath(__file__)))
REPO = os.environ.get('SHV_REPO', '/repo')
SCRATCH_PARENT = os.environ.get('SHV_SCRATCH', '/var/tmp')
NCPU = os.cpu_count() or 4

OBL_RE = re.compile(r'(C\d\d\.[A-Za-z0-9_\-\[\]]+)')


class Undecided(Exception):
    pass


def log(*a):
    print(*a, file=sys.stderr, flush=True)


class Scratch:
    """rsync copy of /repo's working tree; removed (with build output) on exit."""

    def __init__(self, keep=False):
        self.keep = keep or bool(os.environ.get('SHV_KEEP'))
        self.path = None

    def __enter__(self):
        os.makedirs(SCRATCH_PARENT, exist_ok=True)
        self.path = tempfile.mkdtemp(prefix='shv.', dir=SCRATCH_PARENT)
        subprocess.check_call(['rsync', '-a', '--exclude', '/target', '--exclude', '.git',
                               '--exclude', '/*/target', REPO + '/', self.path + '/'])
        return self

    def refresh(self):
        """Back to the pristine working tree of /repo (undoes injections and rewrites of earlier units;
        build output is kept)."""
        subprocess.check_call(['rsync', '-a', '--delete', '--exclude', '/target', '--exclude', '.git', '--exclude', '/*/target',
                               '--exclude', '/zz_*', '--exclude', '/kani-*.json', REPO + '/', self.path + '/'])

    def __exit__(self, *exc):
        if not self.keep:
            shutil.rmtree(self.path, ignore_errors=True)
        else:
            log('kept scratch', self.path)

    def rewrite(self, relfile, pattern, repl, min_count):
        """Mechanical token rewrite in the scratch copy (stated in the evidence). Fewer matches than
        expected = anchor lost."""
        p = os.path.join(self.path, relfile)
        if not os.path.exists(p):
            raise Undecided('anchor lost: %s does not exist' % relfile)
        s = open(p).read()
        s2, n = re.subn(pattern, repl, s)
        if n < min_count:
            raise Undecided('anchor lost: pattern %r found %d time(s) in %s, expected >= %d' % (pattern, n, relfile, min_count))
        open(p, 'w').write(s2)
        return n

    def inject(self, relfile, harness_file, modname='verif_kani', vis=''):
        p = os.path.join(self.path, relfile)
        if not os.path.exists(p):
            raise Undecided('anchor lost: %s does not exist' % relfile)
        with open(p, 'a') as f:
            f.write('\n#[cfg(kani)] #[path = "%s"] %smod %s;\n' % (harness_file, vis + ' ' if vis else '', modname))


def _clean_desc(d):
    d = d.strip()
    while len(d) >= 2 and d[0] == '"' and d[-1] == '"':
        d = d[1:-1]
    return d.replace('\\"', '"')


def run_kani(scratch, unit, harnesses, timeout_s, jobs=None):
    """Run one cargo-kani invocation. Returns dict with per-harness results.

    unit keys: crate (dir relative to repo root), inject [(relfile, harness_file)], flags [..],
    features (optional str), unwind (optional default unwind)."""
    cwd = os.path.join(scratch.path, unit.get('crate', '.'))
    out_json = os.path.join(scratch.path, 'kani-%s.json' % unit['name'])
    cmd = ['cargo', 'kani', '--output-format=terse', '-j', str(jobs or min(NCPU, max(1, len(harnesses)))),
           '-Z', 'unstable-options', '--export-json', out_json]
    cmd += [f.replace('{scratch}', scratch.path) for f in unit.get('flags', [])]
    if unit.get('features'):
        cmd += ['--features', unit['features']]
    if unit.get('harness_timeout'):
        cmd += ['--harness-timeout', str(unit['harness_timeout'])]
    for h in harnesses:
        cmd += ['--harness', h]
    cmd += ['--exact'] if unit.get('exact') else []
    env = dict(os.environ, CARGO_NET_OFFLINE='true', CARGO_TERM_COLOR='never')
    env.pop('RUSTFLAGS', None)
    t0 = time.time()
    log('+', ' '.join(cmd), '(cwd %s)' % cwd)
    try:
        p = subprocess.run(cmd, cwd=cwd, env=env, stdout=subprocess.PIPE, stderr=subprocess.STDOUT,
                           timeout=timeout_s, text=True, errors='replace', start_new_session=True)
        out, rc, timed_out = p.stdout, p.returncode, False
    except subprocess.TimeoutExpired as e:
        out = (e.stdout or b'')
        if isinstance(out, bytes):
            out = out.decode(errors='replace')
        rc, timed_out = -1, True
        subprocess.run(['pkill', '-x', 'cbmc'], check=False)
    wall = time.time() - t0
    res = {'cmd': ' '.join(cmd), 'rc': rc, 'wall_s': wall, 'timed_out': timed_out, 'stdout_tail': out[-6000:],
           'harnesses': {}, 'compile_error': None}
    if timed_out:
        res['compile_error'] = 'timeout after %ds' % timeout_s
        return res
    if not os.path.exists(out_json):
        m = re.findall(r'^(error(?:\[E\d+\])?:.*(?:\n.*){0,6})', out, re.M)
        res['compile_error'] = ('\n'.join(m[:5]) if m else out[-3000:])
        return res
    data = json.load(open(out_json))
    stats = {c['harness_id']: c.get('cbmc_stats', {}) for c in data.get('cbmc', [])}
    for r in data.get('verification_results', {}).get('results', []):
        hid = r['harness_id']
        checks = []
        for c in r.get('checks', []):
            loc = c.get('location') or {}
            checks.append({'desc': _clean_desc(c.get('description', '')), 'status': c.get('status', '').upper(),
                           'category': c.get('category', ''), 'function': c.get('function', ''),
                           'loc': '%s:%s' % (loc.get('file', '?'), loc.get('line', '?'))})
        res['harnesses'][hid.split('::')[-1]] = {
            'id': hid, 'status': r.get('status'), 'duration_s': r.get('duration_ms', 0) / 1000.0,
            'checks': checks, 'solver_s': stats.get(hid, {}).get('runtime_decision_procedure_s'),
            'cbmc_stats': stats.get(hid, {})}
    # which stubs were applied, per harness (vacuity guard for contracts of unverified code)
    res['stubs'] = re.findall(r'- Stub: (.*)', out)
    return res


def run_cmd(cmd, cwd, timeout_s, env=None):
    t0 = time.time()
    log('+', ' '.join(cmd))
    try:
        p = subprocess.run(cmd, cwd=cwd, env=env, stdout=subprocess.PIPE, stderr=subprocess.STDOUT,
                           timeout=timeout_s, text=True, errors='replace')
        return p.returncode, p.stdout, time.time() - t0, False
    except subprocess.TimeoutExpired as e:
        o = e.stdout or ''
        if isinstance(o, bytes):
            o = o.decode(errors='replace')
        return -1, o, time.time() - t0, True


def sha256_file(p):
    h = hashlib.sha256()
    with open(p, 'rb') as f:
        h.update(f.read())
    return h.hexdigest()


def grep_assumptions(files):
    """Mechanical scan for assume / external_body / assume_specification / admit in our own text."""
    pat = re.compile(r'kani::assume\(|__CPROVER_assume\(|external_body|assume_specification|admit\(\)|assume\(')
    found = []
    for f in files:
        if not os.path.exists(f):
            continue
        for n, line in enumerate(open(f, errors='replace'), 1):
            if pat.search(line) and not line.strip().startswith('//'):
                found.append('%s:%d: %s' % (os.path.relpath(f, VERIF), n, line.strip()[:140]))
    return found
