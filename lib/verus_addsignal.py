"""Engine V on the REAL `Handle::add_signal` (src/iterator/backend.rs): extracted mechanically by name on every run and
verified against a requires/ensures contract for EVERY state of the id table and every in-range signal (the Kani
harnesses run it on a table shortened to 4 / one signal of the real 128).  Out-of-range and negative numbers are the
documented panics (index / assert): their effect on the instance is decided natively (C12.SURVIVES-PANIC), not here -
the contract carries `requires 0 <= signal < 128`.

What the extraction changes (mechanical, counted, stated in the evidence; erasure check as in the other Verus units):
  A0 signature: ghost parameters `tr` (registration attempts), `g0` / `g1` (id table at lock acquisition / at return),
     result named `ret`, `{` on its own line;
  A1 every `.add_signal(Arc::clone(&self.write), signal)` -> `.add_signal(Arc::clone(&self.write), signal, tr)`.
Syntactic side conditions: exactly one assignment through the guard (`<lock>[signal as usize] = Some(<id>);`), the guard is
used in no other way than indexing, no call outside {lock, unwrap_or_else, is_some, Arc::clone, add_signal, Ok, Some}.
"""
import json, os, re
import shv
import verus_registry as VR
from verus_registry import Lost

VDIR = os.path.join(shv.VERIF, 'verus', 'addsignal')
SRC = 'src/iterator/backend.rs'
GHOST_LINE = re.compile(r'^\s*(requires |ensures\s*$|\*g0 = Ghost\(|\*g1 = Ghost\()')
CONT_LINE = re.compile(r'^\s{8,}(add_idempotent|add_err_no_change|add_ok_records_id)')
HEADER = '''// GENERATED on every run by lib/verus_addsignal.py from %s - do not edit
#![allow(unused_imports, dead_code, unknown_lints, non_camel_case_types, private_interfaces, unused_variables, unused_mut)]
use vstd::prelude::*;
use std::io::Error;
use std::ops::{Deref, DerefMut};
pub type c_int = i32;
verus! {
'''


def _find(lines, kind, name):
    rx = re.compile(r'^    pub fn %s\b' % re.escape(name))
    return [(i, []) for i, l in enumerate(lines) if rx.match(l)]


def rewrite(text):
    notes = []
    sig = '    pub fn add_signal(&self, signal: c_int) -> Result<(), Error> {'
    lines = text.split('\n')
    if lines[0] != sig:
        raise Lost('anchor lost: first line of Handle::add_signal is not `%s`' % sig.strip())
    lines[0:1] = ['    pub fn add_signal(&self, signal: c_int, tr: &mut Ghost<Seq<AddEv>>, g0: &mut Ghost<Seq<Option<SigId>>>, g1: &mut Ghost<Seq<Option<SigId>>>) -> (ret: Result<(), Error>)', '    {']
    notes.append('A0: ghost parameters tr / g0 / g1 appended to the signature, result named `ret`, `{` on its own line')
    text = '\n'.join(lines)
    body = text.split('\n', 1)[1]
    code = re.sub(r'//.*$', '', body, flags=re.M)
    if re.search(r'\b(loop|for|while)\b', code):
        raise Lost('anchor lost in add_signal: a loop appeared')
    total = len(re.findall(r'\.add_signal\(', code))
    text, n = re.subn(r'\.add_signal\(Arc::clone\(&self\.write\), signal\)', '.add_signal(Arc::clone(&self.write), signal, tr)', text)
    if n != 1 or total != 1:
        raise Lost('anchor lost in add_signal: expected exactly one `.add_signal(Arc::clone(&self.write), signal)` call (found %d of %d)' % (n, total))
    notes.append('A1: 1 x `.add_signal(Arc::clone(&self.write), signal)` -> `.add_signal(Arc::clone(&self.write), signal, tr)`')
    m = re.search(r'let mut (\w+) = self\s*\n', code)
    if not m:
        raise Lost('anchor lost in add_signal: `let mut <lock> = self` not found')
    g = m.group(1)
    uses = re.findall(r'(?<![.\w])%s\b(.{0,3})' % re.escape(g), code)
    # first use is the binding itself (` = `), every other use must be an index expression
    if any(not u.startswith('[') for u in uses[1:]) or len(re.findall(r'\b%s\[[^\]]*\]\s*=[^=]' % re.escape(g), code)) != 1:
        raise Lost('anchor lost in add_signal: the guard `%s` must be used by indexing only, with exactly one assignment through it' % g)
    if re.search(r'\b(tr|g0|g1|ret)\b', code.replace(', tr)', ')')):
        raise Lost('anchor lost in add_signal: an identifier tr / g0 / g1 / ret is used by the code')
    calls = set(re.findall(r'\b([A-Za-z_]\w*)\s*\(', code)) - {'lock', 'unwrap_or_else', 'is_some', 'clone', 'add_signal', 'Ok', 'Some', 'if', 'return'}
    if calls:
        raise Lost('anchor lost in add_signal: calls outside the contract vocabulary: %s' % ', '.join(sorted(calls)))
    return text, notes


def build(sc):
    src_path = os.path.join(sc.path, SRC)
    if not os.path.exists(src_path):
        raise Lost('anchor lost: %s does not exist' % SRC)
    src_text = open(src_path).read()
    lines = src_text.split('\n')
    items, notes = {}, []
    save = VR.SRC
    VR.SRC = SRC
    try:
        VR.take_item(lines, items, notes, 'fn', 'add_signal', finder=_find)
    finally:
        VR.SRC = save
    hdrs = [i for i, l in enumerate(lines) if l == 'impl Handle {']
    if len(hdrs) != 1 or not hdrs[0] < items['add_signal']['first_line']:
        raise Lost('anchor lost: `impl Handle {` not found once above add_signal')
    if not re.search(r'registered_signal_ids: Mutex<Vec<Option<SigId>>>', src_text) or not re.search(r'^const MAX_SIGNUM: usize = 128;', src_text, re.M):
        raise Lost('anchor lost: `registered_signal_ids: Mutex<Vec<Option<SigId>>>` / `const MAX_SIGNUM: usize = 128;` not found (the stand-in table and its length)')
    for f in ('pending: Arc<dyn AddSignal>', 'write: Arc<dyn SelfPipeWrite>', 'delivery_state: Arc<DeliveryState>'):
        if f not in src_text:
            raise Lost('anchor lost: field `%s` of Handle not found (stand-in struct)' % f)
    notes = ['Handle, DeliveryState, the id-table mutex and its guard, Arc and the two trait objects are stand-ins declared in the prelude (field names and types checked against the source)']
    rewritten, rnotes = rewrite(items['add_signal']['text'])
    notes += rnotes
    ov = json.load(open(os.path.join(VDIR, 'overlay.json')))
    gen = [HEADER % SRC]
    lineno = lambda: sum(x.count('\n') + 1 for x in gen)  # noqa: E731
    gen.append(open(os.path.join(VDIR, 'prelude_s.rs')).read().rstrip('\n'))
    gen.append('// ---- EXTRACTED fn Handle::add_signal (line %d of %s), rewrites A0-A1, + contract overlay' % (items['add_signal']['first_line'], SRC))
    gen.append('impl Handle {')
    out_lines, flags = VR.splice('add_signal', rewritten, ov['functions']['add_signal'], ov['preamble'])
    if '\n'.join(l for l, f in zip(out_lines, flags) if not f) != rewritten:
        raise Lost('internal: erasure check failed for fn add_signal')
    for l, f in zip(out_lines, flags):
        if f and not (GHOST_LINE.match(l) or CONT_LINE.match(l)):
            raise Lost('internal: overlay line is not ghost code: %r' % l)
    base = lineno()
    obl_at, n_inserted = {}, 0
    for k, (l, f) in enumerate(zip(out_lines, flags)):
        m = re.search(r'// @OBL (C\d\d\.[A-Za-z0-9\-]+)', l)
        if f and m:
            obl_at[base + k + 1] = m.group(1)
        n_inserted += 1 if f else 0
    fn_span = {'add_signal': (base + 1, base + len(out_lines))}
    gen.append('\n'.join(out_lines))
    gen.append('}\n} // verus!\nfn main() {}')
    info = {'items': {n: {'line': v['first_line'], 'sha256': v['sha256']} for n, v in items.items()},
            'transformations': notes, 'overlay_ghost_lines': n_inserted,
            'erasure_check': 'passed: verified text minus overlay lines == extracted text after rewrites A0-A1, byte for byte',
            'syntactic_side_conditions': ['no loop', 'exactly one `.add_signal(Arc::clone(&self.write), signal)` call', 'the guard is used by indexing only, with exactly one assignment through it', 'no call outside {lock, unwrap_or_else, is_some, Arc::clone, add_signal, Ok, Some}', 'identifiers tr / g0 / g1 / ret unused by the code'],
            'not_verified': 'inputs outside 0 <= signal < 128 (documented panics; decided natively: C12.SURVIVES-PANIC)'}
    return '\n'.join(gen) + '\n', obl_at, fn_span, info


def run_addsignal(sc, unit, pid, tier):
    return VR.run_generated(sc, unit, build, 'addsignal_verus', 'zz_addsignal_verus.rs',
                            [os.path.join(VDIR, f) for f in ('prelude_s.rs', 'overlay.json')],
                            'C12.V-ADD-NO-PANIC', (), ())
