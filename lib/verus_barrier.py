"""Engine V on the REAL `HalfLock::write_barrier` (signal-hook-registry/src/half_lock.rs): extracted mechanically by name on
every run and verified against a requires/ensures contract with a loop invariant for an UNBOUNDED number of waiting passes
(the Kani harness of the barrier run bounds the number of non-zero answers of the reader counters to 3).

What the extraction changes (mechanical, counted, stated in the evidence; erasure check as in the other Verus units):
  W0 signature: ghost parameter `tr`, `{` on its own line;
  W1 every `self.update_seen(&mut <x>)` -> `self.update_seen(&mut <x>, tr)`;
  W2 every `.fetch_add(<args>)` -> `.fetch_add(<args>, tr)`;
  W3 `while !<x>.iter().all(|s| *s) {` -> `while !verif_all(&<x>)` + `{` (Iterator::all has no specification in the installed
     Verus; `verif_all` carries the std semantics for a 2-element array as an ASSUMED contract).
`const YIELD_EVERY` is extracted verbatim (the `%` needs a non-zero divisor)."""
import json, os, re
import shv
import verus_registry as VR
from verus_registry import Lost

VDIR = os.path.join(shv.VERIF, 'verus', 'barrier')
SRC = 'signal-hook-registry/src/half_lock.rs'
GHOST_LINE = re.compile(r'^\s*(#\[verifier::exec_allows_no_decreases_clause\]|requires |ensures\s*$|invariant\s*$)')
CONT_LINE = re.compile(r'^\s{8,}(final\(tr\)@|tr@)')
HEADER = '''// GENERATED on every run by lib/verus_barrier.py from %s - do not edit
#![allow(unused_imports, dead_code, unknown_lints, non_camel_case_types, private_interfaces, unused_variables, unused_mut, deprecated)]
use vstd::prelude::*;
verus! {
'''


def _find(lines, kind, name):
    rx = re.compile(r'^    fn %s\b' % re.escape(name))
    return [(i, []) for i, l in enumerate(lines) if rx.match(l)]


def rewrite(text):
    notes = []
    lines = text.split('\n')
    if lines[0] != '    fn write_barrier(&self) {':
        raise Lost('anchor lost: first line of write_barrier is not `fn write_barrier(&self) {`')
    lines[0:1] = ['    fn write_barrier(&self, tr: &mut Ghost<BS>)', '    {']
    notes.append('W0: ghost parameter `tr` appended to the signature, `{` on its own line')
    out, nw = [], 0
    for l in lines:
        m = re.match(r'^(\s*)while !(\w+)\.iter\(\)\.all\(\|(\w+)\| \*\3\) \{\s*$', l)
        if m:
            nw += 1
            out += ['%swhile !verif_all(&%s)' % (m.group(1), m.group(2)), '%s{' % m.group(1)]
        else:
            out.append(l)
    text = '\n'.join(out)
    code = re.sub(r'//.*$', '', text, flags=re.M)
    if nw != 1 or len(re.findall(r'\bwhile\b', code)) != 1 or re.search(r'\b(loop|for)\b', code):
        raise Lost('anchor lost in write_barrier: expected exactly one loop, `while !<x>.iter().all(|s| *s) {`')
    notes.append('W3: `while !<x>.iter().all(|s| *s) {` -> `while !verif_all(&<x>)` + `{` (assumed std semantics of Iterator::all on the 2-element array)')
    for tag, pat, rep, allpat in (('W1', r'self\.update_seen\(&mut (\w+)\)', r'self.update_seen(&mut \1, tr)', r'\bupdate_seen\('),
                                  ('W2', r'\.fetch_add\(([^()]*)\)', r'.fetch_add(\1, tr)', r'\bfetch_add\(')):
        total = len(re.findall(allpat, code))
        ncode = len(re.findall(pat, code))
        text, n = re.subn(pat, rep, text)
        if (n < 1 and tag != 'W2') or ncode != total:
            raise Lost('anchor lost in write_barrier: %d of %d calls matching /%s/ have the expected shape' % (ncode, total, allpat))
        notes.append('%s: %d x /%s/ -> %s' % (tag, n, pat, rep))
    body = re.sub(r'//.*$', '', text.split('\n', 1)[1], flags=re.M)
    if re.search(r'\btr\b', re.sub(r', tr\)', ')', body)):
        raise Lost('anchor lost in write_barrier: the identifier `tr` is used by the code')
    calls = set(re.findall(r'\b([A-Za-z_]\w*)!?\s*\(', body)) - {'update_seen', 'fetch_add', 'verif_all', 'wrapping_add', 'yield_now', 'spin_loop_hint', 'spin_loop', 'cfg', 'not', 'allow', 'while', 'if'}
    if calls:
        raise Lost('anchor lost in write_barrier: calls outside the contract vocabulary: %s' % ', '.join(sorted(calls)))
    return text, notes


def build(sc):
    src_path = os.path.join(sc.path, SRC)
    if not os.path.exists(src_path):
        raise Lost('anchor lost: %s does not exist' % SRC)
    src_text = open(src_path).read()
    lines = src_text.split('\n')
    items, notes = {}, []
    save = VR.SRC
    VR.SRC = SRC
    try:
        VR.take_item(lines, items, notes, 'fn', 'write_barrier', finder=_find)
    finally:
        VR.SRC = save
    m = re.search(r'^const YIELD_EVERY: usize = \d+;$', src_text, re.M)
    if not m:
        raise Lost('anchor lost: `const YIELD_EVERY: usize = <n>;` not found')
    for f in ('generation: AtomicUsize,', 'lock: [AtomicUsize; 2],', 'fn update_seen(&self, seen_zero: &mut [bool; 2]) {'):
        if f not in src_text:
            raise Lost('anchor lost: `%s` not found (stand-in struct / assumed callee)' % f)
    if len([l for l in lines if l == 'impl<T> HalfLock<T> {']) != 1:
        raise Lost('anchor lost: `impl<T> HalfLock<T> {` not found once')
    notes = ['HalfLock (field names and types checked against the source), AtomicUsize, Ordering, thread::yield_now, atomic::spin_loop_hint are stand-ins declared in the prelude; `%s` extracted verbatim' % m.group(0)]
    rewritten, rnotes = rewrite(items['write_barrier']['text'])
    notes += rnotes
    ov = json.load(open(os.path.join(VDIR, 'overlay.json')))
    gen = [HEADER % SRC]
    lineno = lambda: sum(x.count('\n') + 1 for x in gen)  # noqa: E731
    gen.append(m.group(0))
    gen.append(open(os.path.join(VDIR, 'prelude_w.rs')).read().rstrip('\n'))
    gen.append('// ---- EXTRACTED fn HalfLock::write_barrier (line %d of %s), rewrites W0-W3, + contract overlay' % (items['write_barrier']['first_line'], SRC))
    gen.append('impl<T> HalfLock<T> {')
    out_lines, flags = VR.splice('write_barrier', rewritten, ov['functions']['write_barrier'], ov['preamble'])
    if '\n'.join(l for l, f in zip(out_lines, flags) if not f) != rewritten:
        raise Lost('internal: erasure check failed for fn write_barrier')
    for l, f in zip(out_lines, flags):
        if f and not (GHOST_LINE.match(l) or CONT_LINE.match(l)):
            raise Lost('internal: overlay line is not ghost code: %r' % l)
    base = lineno()
    obl_at, n_inserted = {}, 0
    for k, (l, f) in enumerate(zip(out_lines, flags)):
        mm = re.search(r'// @OBL (C\d\d\.[A-Za-z0-9\-]+)', l)
        if f and mm:
            obl_at[base + k + 1] = mm.group(1)
        n_inserted += 1 if f else 0
    fn_span = {'write_barrier': (base + 1, base + len(out_lines))}
    gen.append('\n'.join(out_lines))
    gen.append('}\n} // verus!\nfn main() {}')
    info = {'items': {n: {'line': v['first_line'], 'sha256': v['sha256']} for n, v in items.items()},
            'transformations': notes, 'overlay_ghost_lines': n_inserted,
            'erasure_check': 'passed: verified text minus overlay lines == extracted text after rewrites W0-W3, byte for byte',
            'syntactic_side_conditions': ['exactly one loop, of the shape `while !<x>.iter().all(|s| *s) {`', 'every update_seen / fetch_add call has the expected shape', 'no call outside {update_seen, fetch_add, wrapping_add, yield_now, spin_loop_hint, cfg!}', 'identifier `tr` unused by the code'],
            'not_verified': 'termination of the waiting loop (it depends on readers leaving: fairness, C18 ledger)'}
    return '\n'.join(gen) + '\n', obl_at, fn_span, info


def run_barrier(sc, unit, pid, tier):
    return VR.run_generated(sc, unit, build, 'barrier_verus', 'zz_barrier_verus.rs',
                            [os.path.join(VDIR, f) for f in ('prelude_w.rs', 'overlay.json')],
                            'C18.V-BARRIER-NO-PANIC', (), ())
