"""Engine V on the REAL dispatcher `handler` (signal-hook-registry/src/lib.rs, the non-windows `extern "C" fn handler`):
extracted mechanically by name from the scratch copy of /repo on every run, together with the type definitions it
reads, wrapped in `verus!{}` with hand-written assumed contracts for what it calls (verus/registry/prelude_a.rs,
verus/dispatcher/prelude_h.rs, prelude_h2.rs), the specification (verus/dispatcher/spec_h.rs) and a contract overlay
(verus/dispatcher/overlay.json).  Verus proves, for EVERY snapshot of the registry and every fallback value (no bound
on signals or actions), that one delivery calls exactly: the slot's previous handler once, first, then every action
of that signal in that one snapshot once, in increasing id order - or, without a slot, the fallback's previous handler
iff it is for this signal.

What the extraction changes (mechanical, counted, stated in the evidence under `extraction`; anything else in the
function body is verbatim - the erasure check proves verified text minus overlay lines == rewritten text):
  R0 three ghost parameters (trace, snapshot read, fallback read) appended to the signature; `{` on its own line.
  R1 `#[cfg(not(windows))]` dropped (the `cfg(windows)` variant is not taken).
  R2 every `.execute(sig, info, data)` becomes `.execute(sig, info, data, tr)` (ghost trace argument).
  R3 `for <v> in <expr> {` becomes `for <v> in it: <expr>` + `{` on its own line (Verus needs a name for the iterator
     to state the loop invariant), and every call `<v>(<args>)` of a loop variable becomes
     `verif_call_action(<v>, <args>, tr)` (Verus has no `dyn Fn`; the contract appends the call to the trace).
  R4 the statements from `let info = unsafe { info.as_ref() };` to the end of `info.unwrap_or_else(|| { .. abort .. });`
     become `let info = verif_info_ref(info);` - the NULL-siginfo branch (libc::write + libc::abort, never returns)
     is NOT verified here (Verus rejects the `const` inside the closure); it is checked to contain `libc::abort()`.
"""
import hashlib, json, os, re
import shv
import verus_registry as VR
from verus_registry import Lost

VDIR = os.path.join(shv.VERIF, 'verus', 'dispatcher')
RDIR = os.path.join(shv.VERIF, 'verus', 'registry')
SRC = VR.SRC
GHOST_LINE = re.compile(r'^\s*(proof \{|let ghost |\*[df]0 = Ghost\(|requires |ensures |assume\(|broadcast use |assert\(|assert forall|\}|invariant\s*$|let (ks|a|b) = )')
INV_LINE = re.compile(r'^\s{16,}\S')   # continuation lines of the `invariant` clause


def _find_handler(lines, kind, name):
    rx = re.compile(r'^extern "C" fn %s\b' % re.escape(name))
    out = []
    for i, l in enumerate(lines):
        if rx.match(l):
            j = i
            attrs = []
            while j > 0 and (lines[j - 1].startswith('#[') or lines[j - 1].startswith('//')):
                j -= 1
                attrs.insert(0, lines[j])
            out.append((i, attrs))
    return out


def rewrite(text):
    """R2..R4; returns (new text, list of statements about what was rewritten)"""
    notes = []
    # R4
    lines = text.split('\n')
    s = [k for k, l in enumerate(lines) if re.match(r'^\s*let info = unsafe \{ info\.as_ref\(\) \};\s*$', l)]
    if len(s) != 1:
        raise Lost('anchor lost in fn handler: `let info = unsafe { info.as_ref() };` matches %d lines' % len(s))
    s = s[0]
    if not re.match(r'^\s*let info = info\.unwrap_or_else\(\|\| \{\s*$', lines[s + 1]):
        raise Lost('anchor lost in fn handler: `let info = info.unwrap_or_else(|| {` does not follow the as_ref line')
    indent = re.match(r'^(\s*)', lines[s + 1]).group(1)
    e = next((k for k in range(s + 2, len(lines)) if lines[k] == indent + '});'), None)
    if e is None:
        raise Lost('anchor lost in fn handler: end of the unwrap_or_else closure not found')
    dropped = '\n'.join(lines[s:e + 1])
    code = re.sub(r'//.*$', '', dropped, flags=re.M)
    if 'libc::abort();' not in code:
        raise Lost('anchor lost in fn handler: the NULL-siginfo closure no longer ends in libc::abort() (R4 assumes it never returns)')
    if re.search(r'\b(execute|read|write|lock|register|unregister|store)\s*\(', re.sub(r'libc::write\(', '', code)) or re.search(r'\w\(info\)', code.replace('as_ref()', '')):
        raise Lost('anchor lost in fn handler: the NULL-siginfo closure calls something besides libc::write / libc::abort')
    lines[s:e + 1] = [indent + 'let info = verif_info_ref(info);']
    notes.append('R4: %d lines (NULL-siginfo branch: libc::write + libc::abort, never returns) replaced by `let info = verif_info_ref(info);` - not verified by this unit; sha256 of the dropped text %s' % (e + 1 - s, hashlib.sha256(dropped.encode()).hexdigest()[:16]))
    # R3 (loop header)
    loopvars = []
    out = []
    for l in lines:
        m = re.match(r'^(\s*)for (\w+) in (.*\S) \{\s*$', l)
        if m:
            loopvars.append(m.group(2))
            out.append('%sfor %s in it: %s' % (m.group(1), m.group(2), m.group(3)))
            out.append('%s{' % m.group(1))
        else:
            out.append(l)
    if len(loopvars) != 1:
        raise Lost('anchor lost in fn handler: expected exactly one `for <v> in <expr> {` loop, found %d' % len(loopvars))
    if re.search(r'\b(while|loop)\b', re.sub(r'//.*$', '', '\n'.join(out), flags=re.M)):
        raise Lost('anchor lost in fn handler: a `while`/`loop` appeared (the overlay carries an invariant for one `for` loop only)')
    notes.append('R3: `for %s in <expr> {` -> `for %s in it: <expr>` + `{` (iterator named for the invariant)' % (loopvars[0], loopvars[0]))
    text = '\n'.join(out)
    # R3 (calls of the loop variable) and R2
    v = loopvars[0]
    text, n3 = re.subn(r'(?<![\w.])%s\(([^()]*)\)' % re.escape(v), r'verif_call_action(%s, \1, tr)' % v, text)
    if n3 < 1:
        raise Lost('anchor lost in fn handler: the loop variable `%s` is never called' % v)
    notes.append('R3: %d call(s) `%s(<args>)` -> `verif_call_action(%s, <args>, tr)`' % (n3, v, v))
    text, n2 = re.subn(r'\.execute\(sig, info, data\)', '.execute(sig, info, data, tr)', text)
    if n2 < 1 or len(re.findall(r'\.execute\(', text)) != n2:
        raise Lost('anchor lost in fn handler: %d of %d `.execute(` calls have the shape `.execute(sig, info, data)`' % (n2, len(re.findall(r'\.execute\(', text))))
    notes.append('R2: %d call(s) `.execute(sig, info, data)` -> `.execute(sig, info, data, tr)`' % n2)
    # R0: ghost parameters on the signature (so that the postcondition is an `ensures`, checked at EVERY exit, early returns included)
    sig_rx = r'^extern "C" fn handler\(sig: c_int, info: \*mut siginfo_t, data: \*mut c_void\) \{$'
    text, n0 = re.subn(sig_rx, 'extern "C" fn handler(sig: c_int, info: *mut siginfo_t, data: *mut c_void, tr: &mut Ghost<Seq<Ev>>, d0: &mut Ghost<SignalData>, f0: &mut Ghost<Option<Prev>>)\n{', text, flags=re.M)
    if n0 != 1:
        raise Lost('anchor lost: signature of handler is not `extern "C" fn handler(sig: c_int, info: *mut siginfo_t, data: *mut c_void) {`')
    notes.append('R0: three ghost parameters appended to the signature (trace, the snapshot read, the fallback value read) and `{` moved to its own line, so that the contract is a requires/ensures pair checked at every exit')
    # nothing else may call through a function value or touch the trace
    if re.search(r'\b(tr|d0|f0)\b', re.sub(r', tr\)', ')', text.split('\n', 1)[1])):
        raise Lost('anchor lost in fn handler: an identifier `tr` / `d0` / `f0` is used by the code')
    return text, notes


def build(sc):
    src_path = os.path.join(sc.path, SRC)
    if not os.path.exists(src_path):
        raise Lost('anchor lost: %s does not exist' % SRC)
    src_text = open(src_path).read()
    lines = src_text.split('\n')
    items, notes = {}, []
    VR.take_item(lines, items, notes, 'struct', 'ActionId', 'copy')
    for n in ('Slot', 'SignalData', 'Prev', 'GlobalData'):
        VR.take_item(lines, items, notes, 'struct', n)
    notes = [x for x in notes]
    VR.take_item(lines, items, notes, 'fn', 'handler', finder=_find_handler)
    if not re.search(r'^type Action = (dyn )?Fn\(&siginfo_t\) \+ Send \+ Sync;', src_text, re.M):
        raise Lost('anchor lost: `type Action = Fn(&siginfo_t) + Send + Sync;` not found')
    notes.append('type Action (a `dyn Fn(&siginfo_t) + Send + Sync` trait object) and std::sync::Arc replaced by opaque types; a call of an action is `verif_call_action` (R3)')
    notes.append('derive attributes of Slot / SignalData / Prev / GlobalData dropped (the dispatcher clones nothing)')
    rewritten, rnotes = rewrite(items['handler']['text'])
    notes += ['R1: #[cfg(not(windows))] dropped; the cfg(windows) variant of handler is not taken'] + rnotes
    ov = json.load(open(os.path.join(VDIR, 'overlay.json')))
    gen = [VR.HEADER % SRC]
    lineno = lambda: sum(x.count('\n') + 1 for x in gen)  # noqa: E731
    pa = open(os.path.join(RDIR, 'prelude_a.rs')).read().rstrip('\n')
    # inside a delivery the writer side of the half-lock (mutex + barrier wait) must be unreachable: in THIS generated file
    # `HalfLock::write` gets the precondition `false`, so a call from the dispatcher fails a verifier-generated check on
    # that line of the real code (obligation C03.V-NO-PANIC)
    w_old = "pub fn write(&self) -> (r: WriteGuard<'_, T>) ensures r.stores() == 0"
    if pa.count(w_old) != 1:
        raise Lost('internal: HalfLock::write contract not found in prelude_a.rs')
    pa = pa.replace(w_old, "pub fn write(&self) -> (r: WriteGuard<'_, T>) requires false /* never from a signal handler: takes the writer mutex and waits for readers */ ensures r.stores() == 0")
    gen.append(pa)
    gen.append(open(os.path.join(VDIR, 'prelude_h.rs')).read().rstrip('\n'))
    gen.append('// ---- EXTRACTED type definitions (verbatim from %s, see `extraction` in the evidence)' % SRC)
    for n in ('ActionId', 'Slot', 'SignalData', 'Prev', 'GlobalData'):
        gen.append('\n'.join(items[n]['pre'] + [items[n]['text']]))
    gen.append(open(os.path.join(VDIR, 'prelude_h2.rs')).read().rstrip('\n'))
    gen.append(open(os.path.join(VDIR, 'spec_h.rs')).read().rstrip('\n'))
    gen.append('// ---- EXTRACTED fn handler (line %d of %s), rewrites R0-R4, + contract overlay' % (items['handler']['first_line'], SRC))
    out_lines, flags = VR.splice('handler', rewritten, ov['functions']['handler'], ov['preamble'])
    if '\n'.join(l for l, f in zip(out_lines, flags) if not f) != rewritten:
        raise Lost('internal: erasure check failed for fn handler')
    for l, f in zip(out_lines, flags):
        if f and not (GHOST_LINE.match(l) or INV_LINE.match(l)):
            raise Lost('internal: overlay line is not ghost code: %r' % l)
    base = lineno()
    obl_at = {}
    n_inserted = 0
    for k, (l, f) in enumerate(zip(out_lines, flags)):
        m = re.search(r'// @OBL (C\d\d\.[A-Za-z0-9\-]+)', l)
        if f and m:
            obl_at[base + k + 1] = m.group(1)
        n_inserted += 1 if f else 0
    fn_span = {'handler': (base + 1, base + len(out_lines))}
    gen.append('\n'.join(out_lines))
    gen.append('} // verus!\nfn main() {}')
    info = {'items': {n: {'line': v['first_line'], 'sha256': v['sha256']} for n, v in items.items()},
            'transformations': notes, 'overlay_ghost_lines': n_inserted,
            'erasure_check': 'passed: verified text minus overlay lines == extracted text after rewrites R0-R4, byte for byte',
            'syntactic_side_conditions': ['exactly one `for` loop, no `while`/`loop`', 'every `.execute(` call has the arguments (sig, info, data)', 'the identifier `tr` is not used by the code', 'the dropped NULL-siginfo closure calls only libc::write and libc::abort']}
    return '\n'.join(gen) + '\n', obl_at, fn_span, info


def run_dispatcher(sc, unit, pid, tier):
    return VR.run_generated(sc, unit, build, 'dispatcher_verus', 'zz_dispatcher_verus.rs',
                            [os.path.join(RDIR, 'prelude_a.rs')] + [os.path.join(VDIR, f) for f in ('prelude_h.rs', 'prelude_h2.rs', 'spec_h.rs', 'overlay.json')],
                            'C03.V-NO-PANIC', (), ())
