"""Engine V on the REAL `SignalIterator::poll_signal` (src/iterator/backend.rs): the method, `enum PollResult` and
`struct SignalIterator` are extracted mechanically by name from the scratch copy of /repo on every run and verified
against a requires/ensures contract over a ghost trace, with the three callees (`Handle::is_closed`, `Pending::next`,
`SignalDelivery::poll_pending`) replaced by their contracts (verus/pollsignal/prelude_p.rs - each proved on the real
bodies, on the real 128-slot table, by Kani).  This is the modular step Kani could not take (it cannot stub a trait
method of a generic impl, so the Kani harnesses of poll_signal run on a table shortened to 4 with <= 3 callback
answers): here the loop is verified for EVERY number of iterations and every schedule of callback answers and of
close() landing at any load of the flag.  Termination is not verified (the loop legitimately runs as long as the
callback keeps answering `true`).

What the extraction changes (mechanical, counted, stated in the evidence; the erasure check proves verified text minus
overlay lines == rewritten text):
  P0 the signature line gets a ghost parameter `tr: &mut Ghost<PS<E::Output>>` and a named result `(ret: ..)`;
  P1 every `.is_closed()` -> `.is_closed(tr)`;  P2 every `.next()` -> `.next(tr)`;
  P3 every `.poll_pending(has_signals)` -> `.poll_pending(has_signals, tr)`;
  P4 `while <cond> {` -> `while <cond>` + `{` on its own line (room for the loop contract).
"""
import hashlib, json, os, re
import shv
import verus_registry as VR
from verus_registry import Lost

VDIR = os.path.join(shv.VERIF, 'verus', 'pollsignal')
SRC = 'src/iterator/backend.rs'
GHOST_LINE = re.compile(r'^\s*(#\[verifier::exec_allows_no_decreases_clause\]|proof \{ assert\(|requires |ensures\s*$|invariant_except_break\s*$|invariant\s*$)')
CONT_LINE = re.compile(r'^\s{8,}(flush_calls_ok|final\(tr\)@|forall\|i: int\||poll_pending_post|pending_only_if_armed|closed_only_if_closed|signal_from_scan|err_from_callback|!tr@|tr@)')

HEADER = '''// GENERATED on every run by lib/verus_pollsignal.py from %s - do not edit
#![allow(unused_imports, dead_code, unknown_lints, non_camel_case_types, private_interfaces, unused_variables, unused_mut)]
use vstd::prelude::*;
use std::borrow::BorrowMut;
use std::io::Error;
verus! {
'''


def _find_method(lines, kind, name):
    rx = re.compile(r'^    pub fn %s\b' % re.escape(name))
    return [(i, []) for i, l in enumerate(lines) if rx.match(l)]


def rewrite(text):
    notes = []
    sig = '    pub fn poll_signal<R, F>(&mut self, has_signals: &mut F) -> PollResult<E::Output>'
    if text.split('\n')[0] != sig:
        raise Lost('anchor lost: first line of poll_signal is not `%s`' % sig.strip())
    text = text.replace(sig, '    pub fn poll_signal<R, F>(&mut self, has_signals: &mut F, tr: &mut Ghost<PS<E::Output>>) -> (ret: PollResult<E::Output>)', 1)
    notes.append('P0: ghost parameter `tr` appended to the signature, result named `ret`')
    code = re.sub(r'//.*$', '', text, flags=re.M)
    if re.search(r'\b(loop|for)\b', code.replace('for<', '')):
        raise Lost('anchor lost in poll_signal: a `loop`/`for` appeared (the overlay carries a contract for one `while` loop)')
    lines, nw = [], 0
    for l in text.split('\n'):
        m = re.match(r'^(\s*)while (.*\S) \{\s*$', l)
        if m:
            nw += 1
            lines += ['%swhile %s' % (m.group(1), m.group(2)), '%s{' % m.group(1)]
        else:
            lines.append(l)
    if nw != 1:
        raise Lost('anchor lost in poll_signal: expected exactly one `while <cond> {`, found %d' % nw)
    notes.append('P4: `while <cond> {` -> `while <cond>` + `{`')
    text = '\n'.join(lines)
    for tag, pat, rep, allpat in (('P1', r'\.is_closed\(\)', '.is_closed(tr)', r'\bis_closed\('),
                                  ('P2', r'\.next\(\)', '.next(tr)', r'\.next\('),
                                  ('P3', r'\.poll_pending\(has_signals\)', '.poll_pending(has_signals, tr)', r'\bpoll_pending\(')):
        total = len(re.findall(allpat, re.sub(r'//.*$', '', text, flags=re.M)))
        text, n = re.subn(pat, rep, text)
        ncode = len(re.findall(pat, code))
        if n < 1 or ncode != total:
            raise Lost('anchor lost in poll_signal: %d of %d calls matching /%s/ have the expected shape /%s/' % (ncode, total, allpat, pat))
        notes.append('%s: %d x /%s/ -> %s' % (tag, n, pat, rep))
    body = text.split('\n', 1)[1]
    if re.search(r'\b(tr|ret)\b', re.sub(r'//.*$', '', re.sub(r', tr\)|\(tr\)', ')', body), flags=re.M)):
        raise Lost('anchor lost in poll_signal: an identifier `tr` / `ret` is used by the code')
    # calls the contract does not know about
    known = {'is_closed', 'next', 'poll_pending', 'borrow_mut', 'Signal', 'Err', 'Some', 'Ok', 'FnMut'}
    calls = set(re.findall(r'\b([A-Za-z_]\w*)\s*\(', re.sub(r'//.*$', '', body, flags=re.M))) - known - {'while', 'if', 'match', 'return'}
    if calls:
        raise Lost('anchor lost in poll_signal: calls outside the contract vocabulary: %s' % ', '.join(sorted(calls)))
    return text, notes


def rewrite_pp(text):
    """Q0-Q3 on poll_pending"""
    notes = []
    sig = '    pub fn poll_pending<F>(&mut self, has_signals: &mut F) -> Result<Option<Pending<E>>, Error>'
    if text.split('\n')[0] != sig:
        raise Lost('anchor lost: first line of poll_pending is not `%s`' % sig.strip())
    text = text.replace(sig, '    pub fn poll_pending<F>(&mut self, has_signals: &mut F, tr: &mut Ghost<PS<E::Output>>) -> (ret: Result<Option<Pending<E>>, Error>)', 1)
    notes.append('Q0: ghost parameter `tr` appended to the signature of poll_pending, result named `ret`')
    code = re.sub(r'//.*$', '', text, flags=re.M)
    if re.search(r'\b(loop|for|while)\b', code.replace('for<', '')):
        raise Lost('anchor lost in poll_pending: a loop appeared (the contract is for a loop-free body)')
    for tag, pat, rep, allpat in (('Q1', r'\.is_closed\(\)', '.is_closed(tr)', r'\bis_closed\('),
                                  ('Q2', r'\bhas_signals\(self\.get_read_mut\(\)\)', 'verif_call_cb(has_signals, self.get_read_mut(), tr)', r'\bhas_signals\('),
                                  ('Q3', r'\bself\.pending\(\)', 'self.pending(tr)', r'\.pending\(')):
        body_code = code.split('\n', 1)[1]
        total = len(re.findall(allpat, body_code))
        ncode = len(re.findall(pat, body_code))
        text, n = re.subn(pat, rep, text)
        if n < 1 or ncode != total:
            raise Lost('anchor lost in poll_pending: %d of %d calls matching /%s/ have the expected shape /%s/' % (ncode, total, allpat, pat))
        notes.append('%s: %d x /%s/ -> %s' % (tag, n, pat, rep))
    body = text.split('\n', 1)[1]
    if re.search(r'\b(tr|ret)\b', re.sub(r'//.*$', '', re.sub(r', tr\)|\(tr\)', ')', body), flags=re.M)):
        raise Lost('anchor lost in poll_pending: an identifier `tr` / `ret` is used by the code')
    known = {'is_closed', 'verif_call_cb', 'get_read_mut', 'pending', 'Some', 'Ok', 'Err', 'FnMut'}
    calls = set(re.findall(r'\b([A-Za-z_]\w*)\s*\(', re.sub(r'//.*$', '', body, flags=re.M))) - known - {'if', 'match', 'return'}
    if calls:
        raise Lost('anchor lost in poll_pending: calls outside the contract vocabulary: %s' % ', '.join(sorted(calls)))
    return text, notes


def _find_priv_method(lines, kind, name):
    rx = re.compile(r'^    fn %s\b' % re.escape(name))
    return [(i, []) for i, l in enumerate(lines) if rx.match(l)]


def rewrite_flush(text):
    """F0-F2 on flush"""
    notes = []
    lines = text.split('\n')
    if lines[0] != '    fn flush(&mut self) {':
        raise Lost('anchor lost: first line of flush is not `fn flush(&mut self) {`')
    lines[0:1] = ['    fn flush(&mut self, tr: &mut Ghost<Seq<RecvEv>>)', '    {']
    notes.append('F0: ghost parameter `tr` appended to the signature of flush, `{` on its own line')
    out, skip, n_aix = [], 0, 0
    for l in lines:
        if skip:
            skip -= 1
            continue
        if re.match(r'^\s*#\[cfg\(target_os = "aix"\)\]\s*$', l):
            skip = 1
            n_aix += 1
            continue
        if re.match(r'^\s*#\[cfg\(not\(target_os = "aix"\)\)\]\s*$', l):
            continue
        out.append(l)
    notes.append('F1: %d `#[cfg(target_os = "aix")]` statement(s) dropped, `#[cfg(not(target_os = "aix"))]` attribute(s) dropped (the non-aix variant is verified)' % n_aix)
    text = '\n'.join(out)
    code = re.sub(r'//.*$', '', text, flags=re.M)
    if len(re.findall(r'\bwhile\b', code)) != 1 or re.search(r'\b(loop|for)\b', code):
        raise Lost('anchor lost in flush: expected exactly one `while` and no other loop')
    if len(re.findall(r'libc::recv\(', code)) != 1 or len(re.findall(r'libc::\w+\(', code)) != 1:
        raise Lost('anchor lost in flush: expected exactly one libc call, `libc::recv(`')
    # F2: append the ghost trace as last argument of the recv call (parenthesis matching)
    a = text.index('libc::recv(') + len('libc::recv(')
    depth, k = 1, a
    while depth:
        depth += {'(': 1, ')': -1}.get(text[k], 0)
        k += 1
    close = k - 1
    args = text[a:close]
    m = re.search(r',\n(\s*)$', args)
    if not m:
        raise Lost('anchor lost in flush: the recv call is not a multi-line call with a trailing comma')
    text = text[:close] + '    tr,\n' + m.group(1) + text[close:]
    notes.append('F2: ghost trace `tr,` appended as last argument of the one `libc::recv(..)` call')
    if re.search(r'\btr\b', re.sub(r'\n\s*tr,\n', '\n', re.sub(r'//.*$', '', text.split('\n', 1)[1], flags=re.M))):
        raise Lost('anchor lost in flush: the identifier `tr` is used by the code')
    calls = set(re.findall(r'\b([A-Za-z_]\w*)\s*\(', re.sub(r'//.*$', '', text.split('\n', 1)[1], flags=re.M))) - {'recv', 'as_raw_fd', 'as_mut_ptr', 'while'}
    if calls:
        raise Lost('anchor lost in flush: calls outside the contract vocabulary: %s' % ', '.join(sorted(calls)))
    return text, notes


def build(sc):
    src_path = os.path.join(sc.path, SRC)
    if not os.path.exists(src_path):
        raise Lost('anchor lost: %s does not exist' % SRC)
    src_text = open(src_path).read()
    lines = src_text.split('\n')
    items, notes = {}, []
    save = VR.SRC
    VR.SRC = SRC
    try:
        VR.take_item(lines, items, notes, 'enum', 'PollResult')
        VR.take_item(lines, items, notes, 'struct', 'SignalIterator')
        VR.take_item(lines, items, notes, 'fn', 'poll_signal', finder=_find_method)
        VR.take_item(lines, items, notes, 'fn', 'poll_pending', finder=_find_method)
        VR.take_item(lines, items, notes, 'fn', 'flush', finder=_find_priv_method)
    finally:
        VR.SRC = save
    impl_hdr = 'impl<SD, E: Exfiltrator> SignalIterator<SD, E> {'
    hdrs = [i for i, l in enumerate(lines) if l == impl_hdr]
    if len(hdrs) != 1 or not hdrs[0] < items['poll_signal']['first_line']:
        raise Lost('anchor lost: `%s` not found (once) above poll_signal' % impl_hdr)
    notes = [n for n in notes if 'attributes dropped' not in n] + ['doc comments and derive/other attributes of the extracted items are dropped; `Exfiltrator`, `AsRawFd`, `SignalDelivery` (only its `handle` field is named) and `Handle` are stand-ins declared in the prelude']
    sd_hdr = ['impl<R, E: Exfiltrator> SignalDelivery<R, E>', 'where', "    R: 'static + AsRawFd + Send + Sync,", '{']
    sd_at = [i for i in range(len(lines) - 3) if lines[i:i + 4] == sd_hdr]
    if len(sd_at) != 1 or not sd_at[0] < items['poll_pending']['first_line']:
        raise Lost('anchor lost: the impl header of SignalDelivery (4 lines) not found once above poll_pending')
    ov = json.load(open(os.path.join(VDIR, 'overlay.json')))
    gen = [HEADER % SRC]
    lineno = lambda: sum(x.count('\n') + 1 for x in gen)  # noqa: E731
    gen.append(open(os.path.join(VDIR, 'prelude_p.rs')).read().rstrip('\n'))
    gen.append('// ---- EXTRACTED type definitions (verbatim from %s)' % SRC)
    gen.append(items['PollResult']['text'])
    gen.append(items['SignalIterator']['text'])
    gen.append(open(os.path.join(VDIR, 'spec_p.rs')).read().rstrip('\n'))
    obl_at, fn_span, n_inserted = {}, {}, 0
    if not sd_at[0] < items['flush']['first_line']:
        raise Lost('anchor lost: flush is not inside the SignalDelivery impl')
    for fn, rw, hdr in (('flush', rewrite_flush, '\n'.join(sd_hdr)), ('poll_pending', rewrite_pp, '\n'.join(sd_hdr)), ('poll_signal', rewrite, impl_hdr)):
        rewritten, rnotes = rw(items[fn]['text'])
        notes += rnotes
        gen.append('// ---- EXTRACTED fn %s (line %d of %s), rewritten as stated, + contract overlay' % (fn, items[fn]['first_line'], SRC))
        gen.append(hdr)
        out_lines, flags = VR.splice(fn, rewritten, ov['functions'][fn], ov['preamble'])
        if '\n'.join(l for l, f in zip(out_lines, flags) if not f) != rewritten:
            raise Lost('internal: erasure check failed for fn %s' % fn)
        for l, f in zip(out_lines, flags):
            if f and not (GHOST_LINE.match(l) or CONT_LINE.match(l)):
                raise Lost('internal: overlay line is not ghost code: %r' % l)
        base = lineno()
        for k, (l, f) in enumerate(zip(out_lines, flags)):
            m = re.search(r'// @OBL (C\d\d\.[A-Za-z0-9\-]+)', l)
            if f and m:
                obl_at[base + k + 1] = m.group(1)
            n_inserted += 1 if f else 0
        fn_span[fn] = (base + 1, base + len(out_lines))
        gen.append('\n'.join(out_lines))
        gen.append('}')
    gen.append('} // verus!\nfn main() {}')
    info = {'items': {n: {'line': v['first_line'], 'sha256': v['sha256']} for n, v in items.items()},
            'transformations': notes, 'overlay_ghost_lines': n_inserted,
            'erasure_check': 'passed: verified text minus overlay lines == extracted text after rewrites P0-P4 / Q0-Q3, byte for byte, for both functions',
            'syntactic_side_conditions': ['exactly one `while`, no `loop`/`for`', 'every is_closed / next / poll_pending call has the expected argument shape', 'no call outside {is_closed, next, poll_pending, borrow_mut, enum constructors}', 'identifiers `tr` / `ret` unused by the code'],
            'not_verified': 'termination of the loop (exec_allows_no_decreases_clause): it runs as long as the callback answers true and the batches are empty'}
    return '\n'.join(gen) + '\n', obl_at, fn_span, info


def run_pollsignal(sc, unit, pid, tier):
    return VR.run_generated(sc, unit, build, 'pollsignal_verus', 'zz_pollsignal_verus.rs',
                            [os.path.join(VDIR, f) for f in ('prelude_p.rs', 'spec_p.rs', 'overlay.json')],
                            'C09.V-POLL-PROTOCOL', (), ())
