"""Engine V on the REAL registry mutators: `unregister`, `unregister_signal`, `register_unchecked_impl`
(signal-hook-registry/src/lib.rs) are extracted mechanically by name from the scratch copy of /repo on every run,
wrapped in `verus!{}` together with the extracted type definitions, a hand-written prelude of assumed contracts for
what they call (verus/registry/prelude_{a,b}.rs) and the specification (verus/registry/spec.rs), and a contract
overlay (verus/registry/overlay.json) is spliced in.  Verus then proves, for ALL registry states satisfying the
representation invariant (no bound on signals, actions or ids), the whole-view postcondition of every mutator.

What the extraction changes (all stated in the evidence, `extraction` key):
  * items are taken by name; `#[cfg(windows)]` variants / fields are dropped, other attributes on functions dropped;
  * `#[derive(Clone)]` on the non-Copy structs (checked to be present) is replaced by an explicit Clone impl with an
    assumed specification (Verus gives derived Clone of non-Copy types no spec);
  * `type Action = Fn(&siginfo_t) + Send + Sync` and `std::sync::Arc` are replaced by opaque types (Verus has no
    `dyn Fn`); the mutators only move `Arc<Action>` values;
  * T1/T2: every `<x>.store(<v>);` and `Slot::new(signal)` gets the ghost trace as an extra argument (`&mut tr`), so that
    the ORDER of fallback publication / sigaction / data publication is recorded by the calls themselves;
  * comments are kept; nothing else inside a function body is changed: the erasure check below proves that deleting the
    overlay's ghost lines from the verified text gives back the extracted function text byte for byte.
"""
import hashlib, json, os, re
import shv

VDIR = os.path.join(shv.VERIF, 'verus', 'registry')
SRC = 'signal-hook-registry/src/lib.rs'
COPY_DERIVE = re.compile(r'#\[derive\([^)]*\bCopy\b[^)]*\)\]')
GHOST_LINE = re.compile(r'^\s*(proof \{|let ghost |let mut tr: Ghost<Seq<REv>> = |assume\(|broadcast use |assert\(|\}|let ret = )')

HEADER = '''// GENERATED on every run by lib/verus_registry.py from %s - do not edit
#![feature(allocator_api)]
#![allow(unused_imports, dead_code, bare_trait_objects, unknown_lints, non_camel_case_types, private_interfaces, deprecated, unused_variables, unused_mut)]
use vstd::prelude::*;
use vstd::std_specs::hash::*;
use std::collections::hash_map::Entry;
use std::collections::{BTreeMap, HashMap};
use std::io::Error;
use std::ops::Deref;
pub type c_int = i32;
verus! {
'''


class Lost(Exception):
    pass


def _find_items(lines, kind, name):
    """indices of lines that start an item `kind name` at top level, with the attribute/comment lines above"""
    rx = re.compile(r'^(pub(\([a-z]+\))? )?(unsafe )?%s %s\b' % (kind, re.escape(name)))
    out = []
    for i, l in enumerate(lines):
        if rx.match(l):
            j = i
            attrs = []
            while j > 0 and (lines[j - 1].startswith('#[') or lines[j - 1].startswith('//') or lines[j - 1].startswith(')]') or re.match(r'^\s+(since|note) = ', lines[j - 1])):
                j -= 1
                attrs.insert(0, lines[j])
            out.append((i, attrs))
    return out


def _item_end(lines, i):
    """index of the last line of the item starting at line i (brace matching; strings/comments in the
    extracted items contain no braces - checked)"""
    depth = 0
    seen = False
    for k in range(i, len(lines)):
        code = re.sub(r'//.*$', '', lines[k])
        code = re.sub(r'"(?:[^"\\]|\\.)*"', '""', code)
        code = re.sub(r"'(?:[^'\\]|\\.)'", "' '", code)
        for ch in code:
            if ch == '{':
                depth += 1
                seen = True
            elif ch == '}':
                depth -= 1
        if seen and depth == 0:
            return k
        if not seen and code.rstrip().endswith(';'):
            return k
    raise Lost('unterminated item at line %d' % (i + 1))


def take_item(lines, items, notes, kind, name, want_derive=None, finder=None):
    """extract one top-level item by name (non-windows variant) into items[name]"""
    if True:
        cands = [(i, a) for i, a in (finder or _find_items)(lines, kind, name) if not any('cfg(windows)' in x for x in a)]
        if len(cands) != 1:
            raise Lost('anchor lost: expected exactly one non-windows `%s %s` in %s, found %d' % (kind, name, SRC, len(cands)))
        i, attrs = cands[0]
        e = _item_end(lines, i)
        body = lines[i:e + 1]
        # inner cfg(windows) fields: drop the attribute and the field; cfg(not(windows)): drop the attribute only
        out = []
        skip = False
        for l in body:
            if skip:
                skip = False
                continue
            if re.match(r'^\s*#\[cfg\(windows\)\]\s*$', l):
                skip = True
                continue
            if re.match(r'^\s*#\[cfg\(not\(windows\)\)\]\s*$', l):
                continue
            out.append(l)
        derive = [a for a in attrs if a.startswith('#[derive(')]
        pre = []
        if want_derive == 'copy':
            if not derive or not COPY_DERIVE.search(derive[0]):
                raise Lost('anchor lost: `%s` no longer derives Copy' % name)
            pre = [derive[0]]
        elif want_derive == 'clone':
            if derive != ['#[derive(Clone)]']:
                raise Lost('anchor lost: `%s` is expected to carry exactly #[derive(Clone)] (the assumed Clone specification is only valid for the derived, field-wise clone); found %r' % (name, derive))
            notes.append('%s: #[derive(Clone)] replaced by an explicit Clone impl with an assumed specification' % name)
        dropped = [a for a in attrs if a.startswith('#[') and a not in pre and not a.startswith('#[derive(')]
        if dropped:
            notes.append('%s: attributes dropped: %s' % (name, ' '.join(dropped)))
        items[name] = {'first_line': i + 1, 'text': '\n'.join(out), 'pre': pre,
                       'sha256': hashlib.sha256('\n'.join(lines[i:e + 1]).encode()).hexdigest()}


def extract(src_text):
    lines = src_text.split('\n')
    items = {}
    notes = []

    def take(kind, name, want_derive=None):
        take_item(lines, items, notes, kind, name, want_derive)

    take('struct', 'ActionId', 'copy')
    take('struct', 'SigId', 'copy')
    take('struct', 'Slot', 'clone')
    take('struct', 'SignalData', 'clone')
    take('struct', 'Prev', 'clone')
    take('struct', 'GlobalData')
    take('fn', 'unregister')
    take('fn', 'unregister_signal')
    take('fn', 'register_unchecked_impl')
    # base case of the invariant: the value GlobalData::ensure publishes first
    m = re.search(r'data:\s*HalfLock::new\((SignalData\s*\{[^{}]*\})\s*\)', src_text)
    if not m:
        raise Lost('anchor lost: `data: HalfLock::new(SignalData { .. })` not found in GlobalData::ensure')
    items['__init_expr'] = {'first_line': src_text[:m.start(1)].count('\n') + 1, 'text': m.group(1), 'pre': [], 'sha256': hashlib.sha256(m.group(1).encode()).hexdigest()}
    # the Action alias must still be the trait object the opaque stand-in replaces
    if not re.search(r'^type Action = (dyn )?Fn\(&siginfo_t\) \+ Send \+ Sync;', src_text, re.M):
        raise Lost('anchor lost: `type Action = Fn(&siginfo_t) + Send + Sync;` not found')
    notes.append('type Action (a `dyn Fn(&siginfo_t) + Send + Sync` trait object) and std::sync::Arc replaced by opaque types: the mutators only move Arc<Action> values')
    return items, notes


def rewrite_trace(fn_name, text, notes):
    """T1/T2: pass the ghost trace to the two kinds of call whose ORDER the contract talks about: every `.store(<v>);`
    (publication through a WriteGuard) and `Slot::new(signal)` (the sigaction call that installs the dispatcher)."""
    code = re.sub(r'//.*$', '', text, flags=re.M)
    if re.search(r'\btr\b', code):
        raise Lost('anchor lost in fn %s: the identifier `tr` is used by the code' % fn_name)
    total = len(re.findall(r'\.store\(', code))
    out, n1 = [], 0
    for l in text.split('\n'):
        m = re.match(r'^(\s*(?:\w+)?\.store\(.*)\);\s*$', l)
        if m and not l.lstrip().startswith('//'):
            out.append(m.group(1) + ', &mut tr);')
            n1 += 1
        else:
            out.append(l)
    if n1 != total or n1 < 1:
        raise Lost('anchor lost in fn %s: %d of %d `.store(` calls are statements of the shape `<x>.store(<v>);`' % (fn_name, n1, total))
    text = '\n'.join(out)
    text, n2 = re.subn(r'\bSlot::new\(signal\)', 'Slot::new(signal, &mut tr)', text)
    if n2 != len(re.findall(r'\bSlot::new\(', code)):
        raise Lost('anchor lost in fn %s: a `Slot::new(` call does not have the shape `Slot::new(signal)`' % fn_name)
    notes.append('%s: T1 %d x `.store(<v>);` -> `.store(<v>, &mut tr);`%s' % (fn_name, n1, '; T2 %d x `Slot::new(signal)` -> `Slot::new(signal, &mut tr)`' % n2 if n2 else ''))
    return text


def splice(fn_name, text, overlay, preamble):
    """returns (lines, inserted_flags). Every anchor must match exactly one line."""
    lines = text.split('\n')
    ins_before = {}
    ins_after = {}
    # names of code locals are captured from the anchors (named groups) and substituted for `§name§` in the overlay text, so
    # that renaming a local in /repo does not take the contract away
    names = {}
    located = []
    for ent in overlay:
        rx = re.compile(ent['anchor'])
        hits = [(k, rx.search(l)) for k, l in enumerate(lines) if rx.search(l)]
        if len(hits) != 1:
            raise Lost('anchor lost in fn %s: /%s/ matches %d line(s), expected 1' % (fn_name, ent['anchor'], len(hits)))
        for g, v in hits[0][1].groupdict().items():
            if v is not None:
                if names.get(g, v) != v:
                    raise Lost('anchor lost in fn %s: local `%s` is bound to two different names (%s, %s)' % (fn_name, g, names[g], v))
                names[g] = v
        located.append((hits[0][0], ent))
    def subst(s):
        for g, v in names.items():
            s = s.replace('\u00a7%s\u00a7' % g, v)
        if '\u00a7' in s:
            raise Lost('internal: overlay placeholder without a capturing anchor in fn %s: %s' % (fn_name, s.strip()[:80]))
        return s
    for k, ent in located:
        (ins_before if ent['pos'] == 'before' else ins_after).setdefault(k, []).extend(subst(x) for x in ent['text'])
    preamble = [subst(x) for x in preamble]
    # signature end: first line that ends with `{` at depth 0
    depth = 0
    sig_end = None
    for k, l in enumerate(lines):
        code = re.sub(r'//.*$', '', l)
        if depth == 0 and code.rstrip().endswith('{'):
            sig_end = k
            break
        depth += code.count('(') - code.count(')')
    if sig_end is None:
        raise Lost('anchor lost in fn %s: no signature end' % fn_name)
    ins_after.setdefault(sig_end, [])
    ins_after[sig_end] = list(preamble) + ins_after[sig_end]
    out, flags = [], []
    for k, l in enumerate(lines):
        for x in ins_before.get(k, []):
            out.append(x); flags.append(True)
        out.append(l); flags.append(False)
        for x in ins_after.get(k, []):
            out.append(x); flags.append(True)
    return out, flags


def build(sc):
    src_path = os.path.join(sc.path, SRC)
    if not os.path.exists(src_path):
        raise Lost('anchor lost: %s does not exist' % SRC)
    src_text = open(src_path).read()
    items, notes = extract(src_text)
    ov = json.load(open(os.path.join(VDIR, 'overlay.json')))
    gen = [HEADER % SRC]
    lineno = lambda: sum(x.count('\n') + 1 for x in gen)  # noqa: E731
    gen.append(open(os.path.join(VDIR, 'prelude_a.rs')).read().rstrip('\n'))
    gen.append('// ---- EXTRACTED type definitions (verbatim from %s, see `extraction` in the evidence)' % SRC)
    for n in ('ActionId', 'SigId', 'Slot', 'SignalData', 'Prev', 'GlobalData'):
        gen.append('\n'.join(items[n]['pre'] + [items[n]['text']]))
    gen.append(open(os.path.join(VDIR, 'prelude_b.rs')).read().rstrip('\n'))
    gen.append(open(os.path.join(VDIR, 'spec.rs')).read().rstrip('\n'))
    lem = os.path.join(VDIR, 'lemmas.rs')
    if os.path.exists(lem):
        gen.append(open(lem).read().rstrip('\n'))
    gen.append('// ---- EXTRACTED initial registry value (argument of HalfLock::new in GlobalData::ensure, line %d): base case of Inv' % items['__init_expr']['first_line'])
    init_fn_first = lineno() + 1
    gen.append('fn verif_initial_registry() -> (r: SignalData)\n    ensures sd_inv(r), sd_view(r) == Map::<c_int, SlotView>::empty(), // @OBL C05.V-INV-BASE\n{\n    broadcast use vstd::std_specs::hash::group_hash_axioms;\n    let r = ' + items['__init_expr']['text'] + ';\n    proof { assert(sd_view(r) =~= Map::<c_int, SlotView>::empty()); }\n    r\n}')
    init_fn_last = lineno()
    obl_at = {}     # generated line number -> obligation id
    fn_span = {'verif_initial_registry': (init_fn_first, init_fn_last)}    # fn -> (first, last) generated line
    obl_at[init_fn_first + 1] = 'C05.V-INV-BASE'
    n_inserted = 0
    for fn in ('unregister', 'unregister_signal', 'register_unchecked_impl'):
        gen.append('// ---- EXTRACTED fn %s (line %d of %s) + contract overlay' % (fn, items[fn]['first_line'], SRC))
        rewritten = rewrite_trace(fn, items[fn]['text'], notes)
        lines, flags = splice(fn, rewritten, ov['functions'][fn], ov['preamble'])
        # erasure check: deleting the inserted lines gives back the extracted text (after the stated rewrites T1/T2) byte for byte
        if '\n'.join(l for l, f in zip(lines, flags) if not f) != rewritten:
            raise Lost('internal: erasure check failed for fn %s' % fn)
        for l, f in zip(lines, flags):
            if f and not GHOST_LINE.match(l):
                raise Lost('internal: overlay line is not ghost code: %r' % l)
        base = lineno()
        for k, (l, f) in enumerate(zip(lines, flags)):
            m = re.search(r'// @OBL (C\d\d\.[A-Za-z0-9\-]+)', l)
            if f and m:
                obl_at[base + k + 1] = m.group(1)
            n_inserted += 1 if f else 0
        fn_span[fn] = (base + 1, base + len(lines))
        gen.append('\n'.join(lines))
    gen.append('} // verus!\nfn main() {}')
    # side conditions checked syntactically on the extracted text (stated in the evidence)
    reg = re.sub(r'//.*$', '', items['register_unchecked_impl']['text'], flags=re.M)
    nq = len(re.findall(r'\?\s*[;)]', reg))
    if nq != 2:
        raise Lost('anchor lost: register_unchecked_impl has %d early returns via `?`, the overlay covers exactly 2 (C14.V-ERR-NO-PUBLISH)' % nq)
    for stmt in re.findall(r'[^;{}]*\?\s*[;)][^;]*;', reg):
        if re.search(r'\block\b', stmt):
            raise Lost('anchor lost: a statement with an early return mentions `lock` (C14.V-ERR-NO-PUBLISH is stated just before the statement)')
    info = {'items': {n: {'line': v['first_line'], 'sha256': v['sha256']} for n, v in items.items()},
            'transformations': notes, 'overlay_ghost_lines': n_inserted,
            'erasure_check': 'passed: verified text minus overlay lines == extracted text after rewrites T1/T2 (ghost trace argument on `.store(..)` and `Slot::new(signal)`), byte for byte, for all 3 functions',
            'syntactic_side_conditions': ['register_unchecked_impl has exactly 2 `?` early returns, none in a statement that mentions `lock`']}
    return '\n'.join(gen) + '\n', obl_at, fn_span, info


REFUTED = ('assertion failed', 'precondition not satisfied', 'postcondition not satisfied', 'possible arithmetic underflow/overflow',
           'possible division by zero', 'invariant not satisfied', 'index out of bounds', 'recommendation not met')
ALL_OBL = ['C05.V-UNREG-IFF-LIVE', 'C05.V-PUBLISH-IFF-CHANGED', 'C05.V-REMOVE-ONLY-IT', 'C05.V-UNREG-SIGNAL', 'C05.V-REG-APPEND',
           'C05.V-ID-FRESH', 'C05.V-INV', 'C05.V-NO-PANIC', 'C02.V-ID-MONO', 'C04.V-PREV-PUBLISHED', 'C14.V-ERR-NO-PUBLISH', 'C05.V-HISTORY', 'C05.V-INV-BASE', 'C04.V-REG-ORDER', 'C05.V-INSTALL-ONLY-NEW']


def run_registry(sc, unit, pid, tier):
    return run_generated(sc, unit, build, 'registry_verus', 'zz_registry_verus.rs',
                         [os.path.join(VDIR, f) for f in ('prelude_a.rs', 'prelude_b.rs', 'spec.rs', 'lemmas.rs', 'overlay.json')],
                         'C05.V-NO-PANIC', ('C05.V-HISTORY',), ('verif_initial_registry',))


def run_generated(sc, unit, build, UL, gen_name, scan, NOPANIC, LEMMA_OBLS, AUX_FNS):
    """UL: unit label; NOPANIC: obligation that verifier-generated checks on lines of the real code are reported under;
    LEMMA_OBLS: obligations proved by lemma functions outside the extracted functions; AUX_FNS: generated (non-extracted) functions"""
    out = {'cmds': [], 'discharged': {}, 'failed': {}, 'undecided': [], 'reports': [], 'n_checks': 0, 'solver_s': 0.0,
           'scan': scan, 'raw': ''}
    try:
        text, obl_at, fn_span, info = build(sc)
    except Lost as e:
        out['undecided'].append('unit %s:' % UL + ' %s' % e)
        return out
    gpath = os.path.join(sc.path, gen_name)
    open(gpath, 'w').write(text)
    keep = os.environ.get('SHV_KEEP_GEN')
    if keep:
        open(keep, 'w').write(text)
    cmd = ['verus', gpath, '--edition=2018', '--triggers-mode', 'silent', '--error-format=json', '--output-json', '--time',
           '--multiple-errors', '8', '--rlimit', str(unit.get('rlimit', 30))]
    import subprocess, time
    t0 = time.time()
    try:
        p = subprocess.run(cmd, cwd=sc.path, stdout=subprocess.PIPE, stderr=subprocess.PIPE, text=True, timeout=unit.get('timeout_s', 600))
    except subprocess.TimeoutExpired:
        out['undecided'].append('unit %s:' % UL + ' verus timed out')
        return out
    wall = time.time() - t0
    out['cmds'].append(' '.join(cmd).replace(gpath, '<generated from %s>' % SRC))
    try:
        res = json.loads(p.stdout[p.stdout.index('{'):])
    except Exception:
        res = {}
    vr = res.get('verification-results', {})
    nv, ne = vr.get('verified', 0), vr.get('errors', 0)
    tms = res.get('times-ms', {})
    out['solver_s'] = (tms.get('smt', {}).get('total', 0) if isinstance(tms.get('smt'), dict) else 0) / 1000.0
    diags = []
    for l in p.stderr.splitlines():
        if l.startswith('{'):
            try:
                diags.append(json.loads(l))
            except Exception:
                pass
    errs = [d for d in diags if d.get('level') == 'error' and not d.get('message', '').startswith('aborting due to')]
    out['raw'] = '\n'.join((d.get('rendered') or d.get('message', '')) for d in errs)[-6000:]
    refuted = {}
    hard = []
    glines = text.split('\n')
    for d in errs:
        msg = d.get('message', '')
        sp = [s for s in d.get('spans', []) if s.get('is_primary')] or d.get('spans', [])
        line = sp[0]['line_start'] if sp else None
        # a failed `ensures` is reported at the exit that violates it, with the clause as a secondary span
        lab = [s['line_start'] for s in d.get('spans', []) if s.get('line_start') in obl_at]
        if line not in obl_at and lab:
            line = lab[0]
        if any(msg.startswith(r) for r in REFUTED):
            obl = None
            if line in obl_at:
                obl = obl_at[line]
            else:
                fn = next((f for f, (a, b) in fn_span.items() if line and a <= line <= b), None)
                if fn is None:
                    hard.append('%s at generated line %s (outside the functions under contract: prelude/spec/lemma no longer verifies)' % (msg, line))
                    continue
                src_line = glines[line - 1].strip() if line else ''
                if '@OBL' in src_line or re.match(r'^\s*assert\(', glines[line - 1]):
                    # an unlabelled helper assertion of the overlay failed: the proof, not the property, is in question
                    hard.append('%s in fn %s at overlay helper line: %s' % (msg, fn, src_line[:160]))
                    continue
                obl = NOPANIC   # a verifier-generated check on a line of the real code (assert!, overflow, unwrap)
            refuted.setdefault(obl, {'harness': UL, 'unit': unit['name'], 'desc': msg, 'loc': 'generated line %s: %s' % (line, glines[line - 1].strip()[:200] if line else ''),
                                     'function': next((f for f, (a, b) in fn_span.items() if line and a <= line <= b), '?'), 'engine': 'verus/z3'})
        else:
            hard.append(msg[:300])
    out['n_checks'] = nv + ne + len(obl_at)
    out['reports'].append({'unit': unit['name'], 'verified_functions': nv, 'errors': ne, 'time_s': round(wall, 2), 'labelled_assertions': len(obl_at),
                           'extraction': info, 'functions_under_contract': sorted(fn_span)})
    if vr and not ne and nv < unit.get('min_verified', 1):
        hard.append('only %d functions verified, expected >= %d (vacuity guard)' % (nv, unit['min_verified']))
    if hard or not vr:
        out['undecided'].append('unit %s:' % UL + ' not decided (%s)' % ('; '.join(hard)[:1200] or (p.stderr[-600:] or 'no result')))
        # refutations on labelled obligations are still refutations only if the file compiled and the rest is about them
        if not vr or any('not supported' in h or 'error[' in h or 'expected' in h for h in hard):
            return out
    unstable = set()
    if refuted and vr and not hard:
        # a refutation must be stable: the same obligation has to fail under two more solver seeds, otherwise it is
        # solver instability (undecided), not a violation
        for seed in (1, 2):
            try:
                p2 = subprocess.run(cmd + ['--smt-option', 'smt.random_seed=%d' % seed], cwd=sc.path, stdout=subprocess.PIPE, stderr=subprocess.PIPE, text=True, timeout=unit.get('timeout_s', 600))
            except subprocess.TimeoutExpired:
                continue
            lines2 = set()
            for l in p2.stderr.splitlines():
                if l.startswith('{'):
                    try:
                        d = json.loads(l)
                    except Exception:
                        continue
                    if d.get('level') == 'error' and any(d.get('message', '').startswith(r) for r in REFUTED):
                        for s_ in d.get('spans', []):
                            lines2.add(s_['line_start'])
            for o in list(refuted):
                ln = int(re.search(r'generated line (\d+)', refuted[o]['loc']).group(1))
                if ln not in lines2:
                    out['undecided'].append('unit %s:' % UL + ' obligation %s failed with the default solver seed but not with seed %d: unstable proof, not a refutation' % (o, seed))
                    unstable.add(o)
                    del refuted[o]
        out['cmds'].append('(on refutation: repeated with smt.random_seed=1 and 2; a refutation counts only if it is reproduced under all three seeds)')
    for o, v in refuted.items():
        out['failed'][o] = v
    if vr and not hard:
        def fn_of(line):
            return next((f for f, (a, b) in fn_span.items() if a <= line <= b), None)
        bad_fns = {v['function'] for v in refuted.values()}
        for o in unit['obligations']:
            if o in refuted or o in unstable:
                continue
            fns = {fn_of(l) for l, x in obl_at.items() if x == o}
            if o == NOPANIC:
                fns = set(fn_span) - set(AUX_FNS)
            if o in LEMMA_OBLS:
                fns = set()          # proved by the lemma functions (outside the extracted functions); errors there are `hard`
            if fns & bad_fns:
                continue             # Verus stops exploring a function after its first errors: not decided in this run
            out['discharged'][o] = {'harness': UL, 'engine': 'verus/z3', 'n_checks': len([1 for x in obl_at.values() if x == o]) or 1,
                                    'desc': '%d functions verified, %d errors; every assertion labelled %s holds for every registry state satisfying Inv (unbounded)' % (nv, ne, o)}
    return out
