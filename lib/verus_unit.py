"""Engine V: Verus on pure spec/proof files (composition lemmas over the Kani-level contracts)."""
import os, re
import shv


def run_lemma(sc, unit, pid, tier):
    out = {'cmds': [], 'discharged': {}, 'failed': {}, 'undecided': [], 'reports': [], 'n_checks': 0, 'solver_s': 0.0, 'scan': [unit['source']], 'raw': ''}
    cmd = ['verus', unit['source'], '--time', '--triggers-mode', 'silent']
    rc, o, wall, to = shv.run_cmd(cmd, sc.path, unit.get('timeout_s', 300))
    out['cmds'].append(' '.join(cmd))
    out['raw'] = o[-3000:]
    m = re.search(r'verification results:: (\d+) verified, (\d+) errors', o)
    if to or not m:
        out['undecided'].append('verus %s: no result (%s)' % (os.path.basename(unit['source']), o[-400:].replace('\n', ' | ')))
        return out
    nv, ne = int(m.group(1)), int(m.group(2))
    out['n_checks'] = nv + ne
    t = re.search(r'total-time:\s+(\d+) ms', o) or re.search(r'smt-run:\s+(\d+) ms', o)
    if t:
        out['solver_s'] = int(t.group(1)) / 1000.0
    for obl in unit['obligations']:
        if ne == 0 and nv >= unit.get('min_verified', 1):
            out['discharged'][obl] = {'harness': os.path.basename(unit['source']), 'desc': '%d proof functions verified, 0 errors' % nv, 'engine': 'verus/z3', 'n_checks': nv}
        elif ne > 0:
            # a lemma that no longer verifies is an undischarged proof obligation, not a refuted property
            out['undecided'].append('verus %s: %d error(s) - the composition lemma is not proved' % (os.path.basename(unit['source']), ne))
    out['reports'].append({'unit': unit['name'], 'verified': nv, 'errors': ne, 'time_s': round(wall, 2)})
    return out
