// Native stand-in / replay source for C05 (and the order part of C02): a deterministic walk over the PUBLIC registry API of
// the tree under test against the reference model of the property (per-signal ordered sets of unique ids; a delivery
// runs exactly the live actions of its signal in registration order). 21 targeted steps (remove newest / re-register /
// stale id / oldest removed) followed by 400 fixed-seed random steps over two signals. It is (a) the replay attached to
// an obligation Verus refuted, and (b) a BOUNDED stand-in unit for trees on which the verifiers are out of reach
// (restructured containers / id allocation: seeds C02b, C05d, C02d) - labelled bounded, never counted as proved.
use std::sync::atomic::{AtomicUsize, Ordering::SeqCst};
use std::sync::Arc;
use signal_hook_registry::{register, unregister, SigId};
static LOGN: AtomicUsize = AtomicUsize::new(0);
static LOG: [AtomicUsize; 64] = { const Z: AtomicUsize = AtomicUsize::new(0); [Z; 64] };
struct M { sig: i32, tag: usize, id: SigId, live: bool }
fn main() {
    let sigs = [libc::SIGUSR1, libc::SIGUSR2];
    let mut acts: Vec<M> = Vec::new();
    let mut hist: Vec<String> = Vec::new();
    let mut rng: u64 = 0x9E3779B97F4A7C15;
    let mut next = || { rng ^= rng << 13; rng ^= rng >> 7; rng ^= rng << 17; rng };
    // op codes: 0 = register on sig[a%2]; 1 = unregister the (a % n)-th id ever handed out; 2 = deliver sig[a%2]
    let mut script: Vec<(u8, u64)> = vec![(0,0),(0,0),(1,1),(0,0),(1,1),(2,0), (0,1),(1,3),(0,1),(1,3),(2,1),(2,0), (0,0),(0,0),(0,0),(1,5),(2,0),(1,6),(2,0),(0,0),(2,0)];
    for _ in 0..400 { let r = next(); script.push(((r % 3) as u8, r >> 8)); }
    let mut nsteps = 0usize;
    for (op, a) in script {
        nsteps += 1;
        match op {
            0 => {
                let sig = sigs[(a % 2) as usize];
                let tag = acts.len() + 1;
                let id = unsafe { register(sig, move || { let n = LOGN.fetch_add(1, SeqCst); if n < 64 { LOG[n].store(tag, SeqCst); } }) }.unwrap();
                hist.push(format!("register(sig {}) -> action #{}", sig, tag));
                if let Some(o) = acts.iter().find(|m| m.id == id) {
                    println!("OBL C05.NATIVE-HISTORY FAIL FAILING HISTORY: {} | the id returned for action #{} equals the id handed out earlier for action #{} (ids must never be reused)", hist.join("; "), tag, o.tag);
                    std::process::exit(1);
                }
                acts.push(M { sig, tag, id, live: true });
            }
            1 => {
                if acts.is_empty() { continue; }
                let k = (a % acts.len() as u64) as usize;
                let expect = acts[k].live;
                let got = unregister(acts[k].id);
                hist.push(format!("unregister(id of #{}) -> {}", acts[k].tag, got));
                if got != expect {
                    println!("OBL C05.NATIVE-HISTORY FAIL FAILING HISTORY: {} | the model says {} (action #{} {} registered)", hist.join("; "), expect, acts[k].tag, if expect { "is still" } else { "is no longer" });
                    std::process::exit(1);
                }
                acts[k].live = false;
            }
            _ => {
                let sig = sigs[(a % 2) as usize];
                LOGN.store(0, SeqCst);
                unsafe { libc::raise(sig); }
                let n = LOGN.load(SeqCst).min(64);
                let got: Vec<usize> = (0..n).map(|i| LOG[i].load(SeqCst)).collect();
                let want: Vec<usize> = acts.iter().filter(|m| m.live && m.sig == sig).map(|m| m.tag).collect();
                hist.push(format!("deliver(sig {}) ran {:?}", sig, got));
                if got != want && want.len() <= 64 {
                    println!("OBL C05.NATIVE-HISTORY FAIL FAILING HISTORY: {} | the model says exactly the live actions of that signal in registration order: {:?}", hist.join("; "), want);
                    std::process::exit(1);
                }
            }
        }
        if hist.len() > 60 { let keep = hist.split_off(hist.len() - 40); hist = vec![format!("... ({} earlier steps that agreed with the model)", 0)]; hist.extend(keep); }
    }
    let _ = Arc::new(0);
    println!("OBL C05.NATIVE-HISTORY PASS {} API steps agree with the reference model (ids unique, unregister true iff live, deliveries run the live actions of the signal in registration order)", nsteps);
}
