// Native stand-in for the parts of C12/C14 that are about the state AFTER a caught panic (Kani builds
// with panic=abort and cannot unwind). Runs the real public API of the tree under test.
use signal_hook::consts::*;
use signal_hook::iterator::exfiltrator::WithRawSiginfo;
use signal_hook::iterator::{Signals, SignalsInfo};
use std::panic::{catch_unwind, AssertUnwindSafe};

fn open_fds() -> usize {
    std::fs::read_dir("/proc/self/fd").map(|d| d.count()).unwrap_or(0)
}

/// Runs `f` in a forked child so that an abort of the process is an observable outcome.
fn in_child(obls: &[&str], f: fn()) {
    use std::io::Write;
    std::io::stdout().flush().unwrap();
    unsafe {
        let pid = libc::fork();
        if pid == 0 {
            libc::alarm(30); // a wedged instance (dead-locked table) is an outcome too
            f();
            std::io::stdout().flush().unwrap();
            libc::_exit(0);
        }
        let mut st = 0;
        libc::waitpid(pid, &mut st, 0);
        if libc::WIFSIGNALED(st) || libc::WEXITSTATUS(st) != 0 {
            for o in obls {
                println!("OBL {} FAIL the process was aborted / killed (wait status {:#x}) while exercising a rejected addition: the property demands the process is never aborted", o, st);
            }
        }
    }
}

fn main() {
    std::panic::set_hook(Box::new(|_| {}));
    in_child(&["C12.SURVIVES-PANIC", "C12.DROP-NO-PANIC"], scenario_panics);
    in_child(&["C12.RETRY-NATIVE"], scenario_retry);
    in_child(&["C12.CTOR-CLEAN"], scenario_ctor);
}

fn scenario_panics() {
    // ---- 1. additions rejected by the documented panic leave the instance usable ----
    let rejected: [i32; 9] = [-1, i32::MIN, 128, i32::MAX, SIGKILL, SIGSTOP, SIGILL, SIGFPE, SIGSEGV];
    let mut survive_fail: Option<String> = None;
    let mut drop_fail: Option<String> = None;
    for &bad in rejected.iter() {
        let mut sigs = Signals::new(&[SIGUSR1]).unwrap();
        let h = sigs.handle();
        let r = catch_unwind(AssertUnwindSafe(|| h.add_signal(bad)));
        if r.is_ok() {
            survive_fail.get_or_insert(format!("add_signal({}) did not panic", bad));
        }
        // later additions behave normally, re-adding is a no-op
        match catch_unwind(AssertUnwindSafe(|| (h.add_signal(SIGUSR2), h.add_signal(SIGUSR1)))) {
            Ok((Ok(()), Ok(()))) => {}
            Ok(other) => { survive_fail.get_or_insert(format!("after rejected add_signal({}): later add_signal returned {:?}", bad, other)); }
            Err(e) => {
                let msg = e.downcast_ref::<String>().cloned().or_else(|| e.downcast_ref::<&str>().map(|s| s.to_string())).unwrap_or_default();
                survive_fail.get_or_insert(format!("after the rejected add_signal({}) every later add_signal panics: {}", bad, msg));
            }
        }
        // already watched signals are still delivered
        unsafe { libc::raise(SIGUSR1) };
        if !sigs.pending().any(|s| s == SIGUSR1) {
            survive_fail.get_or_insert(format!("after rejected add_signal({}): SIGUSR1 no longer delivered", bad));
        }
        // dropping the instance and its handles must not panic (a panic in drop during unwinding aborts)
        drop(h);
        if catch_unwind(AssertUnwindSafe(move || drop(sigs))).is_err() {
            drop_fail.get_or_insert(format!("dropping the instance after the rejected add_signal({}) panics (registrations are left behind; aborts the process if it happens while unwinding)", bad));
        }
    }
    match survive_fail {
        None => println!("OBL C12.SURVIVES-PANIC PASS after each of 9 rejected additions: later add_signal Ok, re-add no-op, watched signal still delivered"),
        Some(m) => println!("OBL C12.SURVIVES-PANIC FAIL {}", m),
    }
    // ---- 1b. after the instance and its handles are gone, its registrations are gone and its pipe is
    // closed - also when an addition had been rejected by panic before (EOF probe on a dup of the read end)
    {
        use signal_hook::iterator::backend::SignalDelivery;
        use signal_hook::iterator::exfiltrator::SignalOnly;
        use std::io::Read;
        use std::os::unix::net::UnixStream;
        let (read, write) = UnixStream::pair().unwrap();
        let mut probe = read.try_clone().unwrap();
        probe.set_nonblocking(true).unwrap();
        let sd = SignalDelivery::with_pipe(read, write, SignalOnly, &[SIGUSR1]).unwrap();
        let h = sd.handle();
        let _ = catch_unwind(AssertUnwindSafe(|| h.add_signal(SIGKILL)));
        let _ = h.add_signal(SIGUSR2);
        drop(h);
        let _ = catch_unwind(AssertUnwindSafe(move || drop(sd)));
        let mut b = [0u8; 8];
        match probe.read(&mut b) {
            Ok(0) => {}
            other => {
                drop_fail.get_or_insert(format!("after a rejected add_signal(SIGKILL) and dropping the instance and all handles, the self-pipe is still open ({:?}): registrations were left behind", other));
            }
        }
    }
    match drop_fail {
        None => println!("OBL C12.DROP-NO-PANIC PASS drop after a rejected addition does not panic, removes every registration and closes the pipe"),
        Some(m) => println!("OBL C12.DROP-NO-PANIC FAIL {}", m),
    }
}

fn scenario_retry() {
    // ---- 2. an addition rejected by an error can be retried (info-carrying exfiltrator) ----
    let sigs = SignalsInfo::<WithRawSiginfo>::new(&[SIGUSR1]).unwrap();
    let first = sigs.add_signal(100); // not a signal on this platform: the OS refuses it
    let second = catch_unwind(AssertUnwindSafe(|| sigs.add_signal(100)));
    match (first.is_err(), second) {
        (true, Ok(Err(_))) => println!("OBL C12.RETRY-NATIVE PASS add_signal(100) is refused with an error, twice"),
        (true, Err(e)) => {
            let msg = e.downcast_ref::<String>().cloned().or_else(|| e.downcast_ref::<&str>().map(|s| s.to_string())).unwrap_or_default();
            println!("OBL C12.RETRY-NATIVE FAIL add_signal(100) returned Err, the same call again panics: {}", msg)
        }
        (f, s) => println!("OBL C12.RETRY-NATIVE FAIL unexpected outcomes first_is_err={} second={:?}", f, s.map(|r| r.is_ok())),
    }
    drop(sigs);
}

fn scenario_ctor() {
    // ---- 3. a failing constructor leaves nothing behind (descriptors) ----
    let before = open_fds();
    let r = SignalsInfo::<WithRawSiginfo>::new(&[SIGUSR2, 100]);
    let after = open_fds();
    if r.is_err() && after == before {
        println!("OBL C12.CTOR-CLEAN PASS failed constructor returned Err and closed its pipe ({} descriptors before and after)", before);
    } else {
        println!("OBL C12.CTOR-CLEAN FAIL constructor with an invalid signal: is_err={} descriptors before={} after={}", r.is_err(), before, after);
    }
}
