// Native stand-in for obligations that need real unwinding (Kani builds with panic=abort).
// The REAL signal-hook-registry/src/half_lock.rs of the tree under test is included by path.
extern crate libc;
#[allow(dead_code)]
#[path = "@SCRATCH@/signal-hook-registry/src/half_lock.rs"]
mod half_lock;
use half_lock::HalfLock;
use std::panic::{catch_unwind, AssertUnwindSafe};

fn main() {
    std::panic::set_hook(Box::new(|_| {}));
    let hl = HalfLock::new(1u8);
    // a mutator panics while holding the writer mutex (e.g. a captured value's Drop panics in store)
    let r = catch_unwind(AssertUnwindSafe(|| {
        let _g = hl.write();
        panic!("mutator panics under the writer mutex");
    }));
    assert!(r.is_err());
    // a later mutator must still get a working guard, and be able to publish
    let r = catch_unwind(AssertUnwindSafe(|| {
        let mut g = hl.write();
        let before = *g;
        g.store(2u8);
        (before, *g, *hl.read())
    }));
    match r {
        Ok((1, 2, 2)) => println!("OBL C18.POISON-OK PASS a later write()+store() works after a mutator panicked under the writer mutex"),
        Ok(v) => println!("OBL C18.POISON-OK FAIL later mutator saw wrong data {:?}", v),
        Err(_) => println!("OBL C18.POISON-OK FAIL HalfLock::write() panics after an earlier mutator panicked while holding the writer mutex: every later register/unregister is wedged"),
    }
}
