#!/usr/bin/env python3
"""Confirms sub-agent seeded changes in a scratch worktree of /repo HEAD:
 patch applies; suite passes with patch; demo fails with patch; demo passes without.
usage: confirm_seeds.py <out-root> <ids...>   (ids like C01/a)"""
import json, os, shutil, subprocess, sys, time
ROOT = sys.argv[1]
WT = os.path.join(ROOT, 'confirm-wt')
RES = os.path.join(ROOT, 'confirm-results.json')

def sh(cmd, cwd=WT, timeout=1500):
    try:
        p = subprocess.run(cmd, cwd=cwd, shell=True, stdout=subprocess.PIPE, stderr=subprocess.STDOUT, text=True, timeout=timeout, errors='replace')
        return p.returncode, p.stdout
    except subprocess.TimeoutExpired as e:
        return 124, (e.stdout or b'').decode(errors='replace') if isinstance(e.stdout, bytes) else (e.stdout or '')

if not os.path.exists(WT):
    subprocess.check_call(['git', '-C', '/repo', 'worktree', 'add', '-q', '--detach', WT, 'HEAD'])
results = json.load(open(RES)) if os.path.exists(RES) else {}
for sid in sys.argv[2:]:
    d = os.path.join(ROOT, 'out-' + sid.split('/')[0], sid.split('/')[1])
    meta = json.load(open(os.path.join(d, 'meta.json')))
    r = {'id': sid}
    sh('git checkout -q -- . && git clean -fdq -e target')
    rc, o = sh('git apply --check %s/patch.diff' % d)
    r['applies'] = rc == 0
    if rc != 0:
        r['error'] = o[-500:]
        results[sid] = r
        json.dump(results, open(RES, 'w'), indent=1)
        continue
    demo_cmd = meta.get('demo_cmd') or ''
    if isinstance(demo_cmd, list):
        demo_cmd = demo_cmd[0]
    tdir = 'signal-hook-registry/tests' if 'signal-hook-registry' in demo_cmd.split('--test')[0] else 'tests'
    demos = [f for f in os.listdir(d) if f.startswith('zz_demo') and f.endswith('.rs')]
    # 1. suite with patch (no demo files present)
    sh('git apply %s/patch.diff' % d)
    sh('touch build.rs')
    rc, o = sh('cargo test --workspace --offline 2>&1 | tail -60', timeout=1800)
    fails = [l for l in o.splitlines() if 'FAILED' in l or 'error' in l.lower() and 'warning' not in l.lower()]
    r['suite_with_patch_ok'] = (rc == 0 and 'test result: FAILED' not in o and 'error: could not compile' not in o and 'error[' not in o)
    r['suite_tail'] = o[-300:] if not r['suite_with_patch_ok'] else ''
    # 2. demo with patch
    os.makedirs(os.path.join(WT, tdir), exist_ok=True)
    for f in demos:
        shutil.copy(os.path.join(d, f), os.path.join(WT, tdir, f))
    t0 = time.time()
    rc, o = sh('touch build.rs; ' + demo_cmd + ' 2>&1 | tail -40; exit ${PIPESTATUS[0]}', timeout=900)
    rc2, o2 = sh('bash -c %r' % ('touch build.rs; ' + demo_cmd + ' > /tmp/seedwork/demo.log 2>&1; echo rc=$?'), timeout=900)
    r['demo_with_patch_rc'] = o2.strip().splitlines()[-1] if o2.strip() else '?'
    r['demo_with_patch_tail'] = open('/tmp/seedwork/demo.log', errors='replace').read()[-600:]
    # 3. demo without patch
    sh('git checkout -q -- .')
    rc3, o3 = sh('bash -c %r' % ('touch build.rs; ' + demo_cmd + ' > /tmp/seedwork/demo.log 2>&1; echo rc=$?'), timeout=900)
    r['demo_without_patch_rc'] = o3.strip().splitlines()[-1] if o3.strip() else '?'
    r['confirmed'] = bool(r['suite_with_patch_ok'] and r['demo_with_patch_rc'] != 'rc=0' and r['demo_without_patch_rc'] == 'rc=0')
    for f in demos:
        os.remove(os.path.join(WT, tdir, f))
    r['demo_dir'] = tdir
    r['wall_s'] = round(time.time() - t0)
    results[sid] = r
    json.dump(results, open(RES, 'w'), indent=1)
    print(sid, 'confirmed' if r['confirmed'] else 'NOT CONFIRMED', r['demo_with_patch_rc'], r['demo_without_patch_rc'], 'suite_ok' if r['suite_with_patch_ok'] else 'suite_bad', flush=True)
sh('git checkout -q -- . && git clean -fdq -e target')
