#!/usr/bin/env python3
"""Builds /verif/seeded/RESULTS.md from the mutation-run log (tools/runmut.py) and the seeds' meta.json."""
import json, os, collections
LOG = '/tmp/seedwork/mut-results.jsonl'
KEPT = '/verif/seeded/results.jsonl'   # committed copy of every mutation run (the /tmp log does not survive a restore)
have = set(open(KEPT).read().splitlines()) if os.path.exists(KEPT) else set()
if os.path.exists(LOG):
    with open(KEPT, 'a') as k:
        for l in open(LOG):
            l = l.strip()
            if l and l not in have:
                k.write(l + '\n')
                have.add(l)
latest = collections.OrderedDict()
for l in open(KEPT):
    r = json.loads(l)
    latest[(r['seed'].replace('/', ''), r['prop'])] = r
rows = []
for d in sorted(os.listdir('/verif/seeded')):
    mp = os.path.join('/verif/seeded', d, 'meta.json')
    if not os.path.exists(mp):
        continue
    m = json.load(open(mp))
    runs = [(k[1], v) for k, v in latest.items() if k[0] == d]
    summ = (m.get('summary') or '')
    summ = summ if isinstance(summ, str) else json.dumps(summ)
    for prop, r in runs or [('-', None)]:
        if r is None:
            verdict, obl = 'not run', ''
        elif r['rc'] == 1:
            verdict = 'CAUGHT (exit 1)'
            obl = ', '.join(sorted({v.split('-', 1)[1].replace('.txt', '').replace(' no-failing-input-found', '') + ('' if 'no-failing-input-found' in v else ' [replayed]') for v in r['violations']}))
        elif r['rc'] == 2:
            verdict, obl = 'undecided (exit 2)', (r['undecided'][0][:160] if r['undecided'] else '')
        else:
            verdict, obl = 'MISSED (exit 0)', ''
        rows.append((d, m.get('property_id', d[:3]), prop, verdict, obl, summ.replace('\n', ' ')[:170]))
with open('/verif/seeded/RESULTS.md', 'w') as f:
    f.write('# Seeded changes vs. checks\n\nEach seed is an independent sub-agent change (given only the property text) that compiles and passes the 36-test suite; '
            'confirmed in a scratch worktree (see each `meta.json`). Checks were run with `tools/runmut.py` on a scratch worktree of /repo HEAD '
            'with the patch applied (never in /repo).\n\n| seed | property | check run | verdict | failed obligation(s) | what the change does |\n|---|---|---|---|---|---|\n')
    for r in rows:
        f.write('| %s | %s | %s | %s | %s | %s |\n' % r)
    caught = len({r[0] for r in rows if r[3].startswith('CAUGHT')})
    f.write('\n%d of %d seeds are caught by at least one check; the rest are listed as undecided/missed above.\n' % (caught, len({r[0] for r in rows})))
print(open('/verif/seeded/RESULTS.md').read()[-400:])
