#!/bin/sh
# runs every registered check (quick tier by default) and prints a one-line summary each
cd /verif
for p in ${PROPS:-C15 C17 C13 C16 C06 C07 C08 C11 C12 C09 C10 C01 C18 C02 C04 C05 C14}; do
  s=$(date +%s)
  out=$(./check $p --tier ${TIER:-quick} 2>/dev/null); rc=$?
  echo "$p rc=$rc $(( $(date +%s) - s ))s :: $(echo "$out" | head -4 | tr '\n' '|' | cut -c1-400)"
done
