#!/usr/bin/env python3
"""Runs checks against seeded changes WITHOUT touching /repo: a scratch worktree + SHV_REPO.
usage: runmut.py <patch-root> <wt-name> <seed:prop[,prop]> ...   e.g. C06/a:C06,C08
patch-root has out-Cxx/<v>/patch.diff (sub-agent output) or <Cxx><v>/patch.diff (/verif/seeded)."""
import os, subprocess, sys, time, json
ROOT, WTN = os.path.abspath(sys.argv[1]), sys.argv[2]
WT = '/tmp/seedwork/' + WTN
LOG = '/tmp/seedwork/mut-results.jsonl'
if not os.path.exists(WT):
    subprocess.check_call(['git', '-C', '/repo', 'worktree', 'add', '-q', '--detach', WT, 'HEAD'])
for spec in sys.argv[3:]:
    seed, props = spec.split(':')
    cand = [os.path.join(ROOT, seed.replace('/', ''), 'patch.diff')]
    if '/' in seed:
        cand.insert(0, os.path.join(ROOT, 'out-' + seed.split('/')[0], seed.split('/')[1], 'patch.diff'))
    patch = [c for c in cand if os.path.exists(c)][0]
    subprocess.call('git checkout -q -- . ; git clean -fdq', shell=True, cwd=WT)
    if subprocess.call(['git', 'apply', patch], cwd=WT) != 0:
        print(seed, 'PATCH DOES NOT APPLY'); continue
    for p in props.split(','):
        t0 = time.time()
        env = dict(os.environ, SHV_REPO=WT, SHV_OUT='/tmp/seedwork/mut-out')
        r = subprocess.run([os.path.join(os.path.dirname(os.path.dirname(os.path.abspath(__file__))), 'check'), p, '--tier', os.environ.get('TIER', 'quick')], cwd=os.path.dirname(os.path.dirname(os.path.abspath(__file__))), env=env, stdout=subprocess.PIPE, stderr=subprocess.DEVNULL, text=True)
        viol = [l.split('replay=')[1].split('/')[-1] for l in r.stdout.splitlines() if l.startswith('VIOLATION')]
        rec = {'seed': seed, 'prop': p, 'rc': r.returncode, 'violations': viol, 'undecided': [l[:200] for l in r.stdout.splitlines() if l.startswith('UNDECIDED')][:3], 'wall': round(time.time() - t0)}
        open(LOG, 'a').write(json.dumps(rec) + '\n')
        print(seed, p, 'rc=%d' % r.returncode, viol, rec['undecided'][:1], '%ds' % rec['wall'], flush=True)
    subprocess.call('git checkout -q -- . ; git clean -fdq', shell=True, cwd=WT)
