#!/usr/bin/env python3
"""Runs only the Verus registry unit against seeded patches (scratch worktree; /repo untouched). usage: verus_seeds.py C05a C02d ..."""
import os, subprocess, sys, json
V = os.path.dirname(os.path.dirname(os.path.abspath(__file__)))
WT = '/tmp/seedwork/vs'
os.makedirs('/tmp/seedwork', exist_ok=True)
if not os.path.exists(WT):
    subprocess.check_call(['git', '-C', '/repo', 'worktree', 'add', '-q', '--detach', WT, 'HEAD'])
os.environ['SHV_REPO'] = WT
sys.path.insert(0, V + '/lib')
import shv, props as P, verus_registry as VR
for s in sys.argv[1:]:
    subprocess.call('git checkout -q -- . ; git clean -fdq', shell=True, cwd=WT)
    patch = s if os.path.exists(s) else os.path.join(V, 'seeded', s, 'patch.diff')
    if subprocess.call(['git', 'apply', patch], cwd=WT) != 0:
        print(s, 'PATCH DOES NOT APPLY'); continue
    with shv.Scratch() as sc:
        r = VR.run_registry(sc, P.UNITS['registry_verus'], 'C05', 'quick')
    print(s, 'FAILED', {k: v['loc'][:110] for k, v in r['failed'].items()}, 'UNDECIDED', [u[:260] for u in r['undecided']], 'discharged', len(r['discharged']), flush=True)
subprocess.call('git checkout -q -- . ; git clean -fdq', shell=True, cwd=WT)
subprocess.call(['git', '-C', '/repo', 'worktree', 'remove', '--force', WT])
