// ---- PRELUDE S (hand-written, trusted): stand-ins for what `Handle::add_signal` (src/iterator/backend.rs) touches.
//  * `Handle` is a stand-in with the three real field names; `Arc<dyn AddSignal>` / `Arc<dyn SelfPipeWrite>` are opaque
//    (`Arc<PendingObj>`, `Arc<WriteObj>`): the function only clones them and calls `add_signal` on the first.
//  * the id table `Mutex<Vec<Option<SigId>>>`: `lock()` gives a result whose `unwrap_or_else(PoisonError::into_inner)` is the
//    guard whatever the poison state (std contract); the guard dereferences to the table (ghost `view()`), whose length is
//    MAX_SIGNUM = 128 (built by DeliveryState::new; never resized: Kani C12.TABLE-LEN / by reading).
//  * `<Arc<PendingSignals<E>> as AddSignal>::add_signal` (range / exfiltrator asserts, slot init, registration with the
//    registry): ONE ghost event carrying the signal and the result; its real body is under Kani contract (C12.REGISTER-ONCE,
//    C14.ITER-*).
#[verifier::external_type_specification]
#[verifier::external_body]
pub struct ExIoError(std::io::Error);
#[derive(Clone, Copy)]
pub struct SigId { signal: c_int, action: u64 }
#[verifier::external_body] pub struct PendingObj { _p: u8 }
#[verifier::external_body] pub struct WriteObj { _p: u8 }
#[verifier::external_body]
#[verifier::reject_recursive_types(T)]
pub struct Arc<T> { _p: core::marker::PhantomData<T> }
impl<T> Arc<T> {
    #[verifier::external_body]
    pub fn clone(this: &Arc<T>) -> (r: Arc<T>) { unimplemented!() }
}
/// one registration attempt: (signal, Some(id) on success / None on error)
pub struct AddEv { pub signal: c_int, pub id: Option<SigId> }
impl Arc<PendingObj> {
    #[verifier::external_body]
    pub fn add_signal(self, write: Arc<WriteObj>, signal: c_int, tr: &mut Ghost<Seq<AddEv>>) -> (r: Result<SigId, Error>)
        ensures final(tr)@ == old(tr)@.push(AddEv { signal, id: match r { Ok(i) => Some(i), Err(_) => None } })
    { unimplemented!() }
}
#[verifier::external_body]
pub struct IdsGuard<'a> { _p: core::marker::PhantomData<&'a u8> }
impl<'a> IdsGuard<'a> {
    pub uninterp spec fn view(&self) -> Seq<Option<SigId>>;
}
pub struct PoisonError {}
impl PoisonError {
    #[verifier::external_body]
    pub fn into_inner<'a>(r: IdsLockResult<'a>) -> IdsGuard<'a> { unimplemented!() }
}
#[verifier::external_body]
pub struct IdsLockResult<'a> { _p: core::marker::PhantomData<&'a u8> }
impl<'a> IdsLockResult<'a> {
    #[verifier::external_body]
    pub fn unwrap_or_else<F: FnOnce(IdsLockResult<'a>) -> IdsGuard<'a>>(self, f: F) -> (g: IdsGuard<'a>)
        ensures g.view().len() == 128
    { unimplemented!() }
}
impl<'a> Deref for IdsGuard<'a> {
    type Target = Vec<Option<SigId>>;
    #[verifier::external_body]
    fn deref(&self) -> (r: &Vec<Option<SigId>>) ensures r@ == self.view() { unimplemented!() }
}
impl<'a> DerefMut for IdsGuard<'a> {
    #[verifier::external_body]
    fn deref_mut(&mut self) -> (r: &mut Vec<Option<SigId>>) ensures r@ == old(self).view(), final(self).view() == final(r)@ { unimplemented!() }
}
#[verifier::external_body]
pub struct IdsMutex { _p: u8 }
impl IdsMutex {
    #[verifier::external_body]
    pub fn lock(&self) -> IdsLockResult<'_> { unimplemented!() }
}
pub struct DeliveryState { registered_signal_ids: IdsMutex }
pub struct Handle {
    pending: Arc<PendingObj>,
    write: Arc<WriteObj>,
    delivery_state: Arc<DeliveryState>,
}
impl Deref for Arc<DeliveryState> {
    type Target = DeliveryState;
    #[verifier::external_body]
    fn deref(&self) -> &DeliveryState { unimplemented!() }
}
// ---- SPEC: the contract of Handle::add_signal over (table at lock acquisition g0, table at return g1, registration trace)
/// already in the set: nothing happens
pub open spec fn add_idempotent(g0: Seq<Option<SigId>>, g1: Seq<Option<SigId>>, tr: Seq<AddEv>, signal: c_int, ok: bool) -> bool {
    g0[signal as int] is Some ==> ok && tr.len() == 0 && g1 == g0
}
/// a refused addition leaves the set exactly as it was, after exactly one attempt for this signal
pub open spec fn add_err_no_change(g0: Seq<Option<SigId>>, g1: Seq<Option<SigId>>, tr: Seq<AddEv>, signal: c_int, ok: bool) -> bool {
    g0[signal as int] is None && !ok ==> tr.len() == 1 && tr[0].signal == signal && tr[0].id is None && g1 == g0
}
/// a successful addition registers exactly once, for this signal, and records exactly the id it got - nothing else changes
pub open spec fn add_ok_records_id(g0: Seq<Option<SigId>>, g1: Seq<Option<SigId>>, tr: Seq<AddEv>, signal: c_int, ok: bool) -> bool {
    g0[signal as int] is None && ok ==> tr.len() == 1 && tr[0].signal == signal && tr[0].id is Some && g1 == g0.update(signal as int, tr[0].id)
}
