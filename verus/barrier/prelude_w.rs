// ---- PRELUDE W (hand-written, trusted): stand-ins for what `HalfLock::write_barrier` (signal-hook-registry/src/half_lock.rs)
// touches, and the ASSUMED contracts of its callees over a ghost state `BS`:
//  * `update_seen` - one sampling pass: for each slot not yet seen at zero ONE SeqCst load of its reader counter, `seen` becomes
//    `seen || load == 0`, a `true` is never taken back. Proved on the real body, complete (all inputs), by Kani: C18.STICKY,
//    C01.U-STEP. `zero_seen[i]` (ghost) = "some load of slot i returned 0 during this barrier".
//  * `AtomicUsize::fetch_add` on the generation: one flip; `flip_ok` records that it was by an odd amount (new readers go to the
//    other slot). Its memory ordering and the number of sampling passes before it are deliberately NOT part of the contract:
//    the generation only picks a slot, safety does not depend on it (benign B2 relaxes the generation load).
//  * `seen_zero.iter().all(|s| *s)` on the 2-element array is replaced (rewrite W3) by `verif_all(&seen_zero)` with the contract
//    `r == (s[0] && s[1])`: the installed Verus accepts `Iterator::all` but gives it no specification (std semantics, assumed).
//  * `thread::yield_now`, `atomic::spin_loop_hint`: no effect on the ghost state (they are the waiting C03 forbids inside a
//    delivery and C18 allows in a writer).
// The number of loop iterations is NOT bounded: readers may keep a slot non-zero for any number of passes.
pub enum Ordering { Relaxed, Release, Acquire, AcqRel, SeqCst }
pub struct BS { pub flips: nat, pub zero_seen: Seq<bool>, pub flip_ok: bool, pub passes: nat }
#[verifier::external_body] pub struct AtomicUsize { _p: u8 }
impl AtomicUsize {
    #[verifier::external_body]
    pub fn fetch_add(&self, v: usize, o: Ordering, tr: &mut Ghost<BS>) -> (r: usize)
        ensures final(tr)@.flips == old(tr)@.flips + 1, final(tr)@.zero_seen == old(tr)@.zero_seen, final(tr)@.passes == old(tr)@.passes,
            final(tr)@.flip_ok == (v % 2 == 1)
    { unimplemented!() }
}
pub mod thread { use super::*; #[verifier::external_body] pub fn yield_now() { } }
pub mod atomic { use super::*; #[verifier::external_body] pub fn spin_loop_hint() { } }
#[verifier::external_body] pub struct AtomicPtrT { _p: u8 }
#[verifier::external_body] pub struct MutexUnit { _p: u8 }
#[verifier::reject_recursive_types(T)]
pub struct HalfLock<T> {
    _t: core::marker::PhantomData<T>,
    data: AtomicPtrT,
    generation: AtomicUsize,
    lock: [AtomicUsize; 2],
    write_mutex: MutexUnit,
}
#[verifier::external_body]
fn verif_all(s: &[bool; 2]) -> (r: bool) ensures r == (s[0] && s[1]) { unimplemented!() }
impl<T> HalfLock<T> {
    #[verifier::external_body]
    fn update_seen(&self, seen_zero: &mut [bool; 2], tr: &mut Ghost<BS>)
        requires old(tr)@.zero_seen.len() == 2
        ensures final(tr)@.zero_seen.len() == 2, final(tr)@.flips == old(tr)@.flips, final(tr)@.flip_ok == old(tr)@.flip_ok,
            final(tr)@.passes == old(tr)@.passes + 1,
            forall|i: int| 0 <= i < 2 ==> (old(tr)@.zero_seen[i] ==> #[trigger] final(tr)@.zero_seen[i]),
            forall|i: int| 0 <= i < 2 ==> (old(seen_zero)[i] ==> #[trigger] final(seen_zero)[i]),
            forall|i: int| 0 <= i < 2 ==> (#[trigger] final(seen_zero)[i] && !old(seen_zero)[i] ==> final(tr)@.zero_seen[i]),
    { unimplemented!() }
}
