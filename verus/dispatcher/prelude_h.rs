// ---- PRELUDE H (hand-written, trusted): what the dispatcher `handler` calls. Every item is an ASSUMED contract
// (listed in the evidence under trusted_base):
//  * `HalfLock::read` returns a guard that dereferences to SOME snapshot (`snap()`, unconstrained: whatever a
//    concurrent writer published last - the verifier must prove the postcondition for every value). That the
//    snapshot stays valid while the guard lives is C01 (Kani: C01.R-ORDER / R-SLOT / R-DEC, lemma L-RCU).
//  * `GlobalData::get` returns the global.
//  * ghost trace: the extraction rewrites every `<x>.execute(sig, info, data)` and every call of the loop variable
//    `<action>(<info>)` to pass the trace `tr`; the contracts below append one event per call. So the trace is produced by
//    the calls themselves (a duplicated or dropped call in /repo changes the trace), not by overlay lines.
//    `Prev::execute`'s real body is proved (complete) by Kani: c04_prev_execute.
//  * `verif_info_ref` stands for the `info.as_ref().unwrap_or_else(|| abort)` block (dropped, see `extraction`).
#[verifier::external_body] pub struct c_void { _p: u8 }
#[verifier::external_body]
#[verifier::reject_recursive_types(T)]
pub struct ReadGuard<'a, T: 'a> { _p: core::marker::PhantomData<&'a T> }
impl<'a, T> ReadGuard<'a, T> {
    /// the snapshot this guard pins
    pub uninterp spec fn snap(&self) -> T;
}
impl<'a, T> Deref for ReadGuard<'a, T> {
    type Target = T;
    #[verifier::external_body]
    fn deref(&self) -> (r: &T) ensures *r == self.snap() { unimplemented!() }
}
impl<T> HalfLock<T> {
    #[verifier::external_body]
    pub fn read(&self) -> (r: ReadGuard<'_, T>) { unimplemented!() }
}
