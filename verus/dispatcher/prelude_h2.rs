// ---- PRELUDE H2 (hand-written, trusted): ghost trace of one delivery; contracts of the calls that make it.
enum Ev { Prev(Prev, c_int), Act(Arc<Action>) }
#[verifier::external_body]
proof fn axiom_action_id_ord() ensures vstd::std_specs::btree::key_obeys_cmp_spec::<ActionId>() {}
impl GlobalData {
    #[verifier::external_body]
    fn get() -> &'static Self { unimplemented!() }
}
impl Prev {
    #[verifier::external_body]
    unsafe fn execute(&self, sig: c_int, info: *mut siginfo_t, data: *mut c_void, tr: &mut Ghost<Seq<Ev>>)
        ensures final(tr)@ == old(tr)@.push(Ev::Prev(*self, sig))
    { unimplemented!() }
}
#[verifier::external_body]
fn verif_call_action(a: &Arc<Action>, info: &siginfo_t, tr: &mut Ghost<Seq<Ev>>)
    ensures final(tr)@ == old(tr)@.push(Ev::Act(*a))
{ unimplemented!() }
#[verifier::external_body]
fn verif_info_ref<'a>(info: *mut siginfo_t) -> (r: &'a siginfo_t) { unimplemented!() }
