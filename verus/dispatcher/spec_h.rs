// ---- SPEC (hand-written): what ONE delivery of `sig` must do, as a predicate over the ghost trace, given THE
// snapshot `d` of the registry and THE value `fb` of the race fallback the delivery read.
//   slot present : the previous handler of that slot exactly once, first; then every action of THAT signal in THAT
//                  snapshot exactly once, in increasing id order (= registration order: C02.V-ID-MONO), nothing else;
//   slot absent  : the fallback's previous handler exactly once iff it is for this signal; no action at all.
spec fn acts_trace(m: Map<ActionId, Arc<Action>>, ks: Seq<ActionId>) -> Seq<Ev> {
    ks.map_values(|k: ActionId| Ev::Act(m[k]))
}
spec fn dispatch_trace(d: SignalData, fb: Option<Prev>, sig: c_int, tr: Seq<Ev>) -> bool {
    if d.signals@.contains_key(sig) {
        let slot = d.signals@[sig];
        exists|ks: Seq<ActionId>| vstd::std_specs::btree::increasing_seq(ks) && ks.no_duplicates() && ks.to_set() == slot.actions@.dom()
            && #[trigger] acts_trace(slot.actions@, ks) == tr.subrange(1, tr.len() as int) && tr.len() >= 1 && tr[0] == Ev::Prev(slot.prev, sig)
    } else if fb is Some && fb->0.signal == sig {
        tr == seq![Ev::Prev(fb->0, sig)]
    } else {
        tr == Seq::<Ev>::empty()
    }
}
/// non-vacuity: the predicate is satisfiable with a slot present and two actions, and refutes a wrong order
proof fn witness_dispatch_trace(d: SignalData, sig: c_int, a: ActionId, b: ActionId, tr: Seq<Ev>)
    requires d.signals@.contains_key(sig), d.signals@[sig].actions@.dom() == set![a, b], a != b,
        vstd::std_specs::btree::increasing_seq(seq![a, b]), !vstd::std_specs::btree::increasing_seq(seq![b, a]),
        tr == seq![Ev::Prev(d.signals@[sig].prev, sig), Ev::Act(d.signals@[sig].actions@[a]), Ev::Act(d.signals@[sig].actions@[b])],
    ensures dispatch_trace(d, None, sig, tr),
{
    let m = d.signals@[sig].actions@;
    let ks = seq![a, b];
    assert(ks.to_set() =~= set![a, b]);
    assert(acts_trace(m, ks) =~= tr.subrange(1, tr.len() as int));
}
