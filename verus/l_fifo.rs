// L-FIFO: composition lemma for C06 over the contracts proved by Kani on channel.rs.
// Steps = the successful CASes and the cell accesses of send/recv, as pinned down by
//   C06.ATOMIC (every effect on a queue word is one pop-front / push-back of the expected value),
//   C06.OWN / C07.OWN-CELL (only an index the operation took out is written / published),
//   C06.G-INV (an index is published in `full` only with a value in its cell),
//   C07.EMPTY-MEANS-NONE / C07.TAKE (an index goes back to `empty` only after its value was moved out).
// Any number of concurrent senders and receivers, interleaved at the granularity of those steps
// (a send nested inside an interrupted send/recv is just another operation id).
// Linearization points: a send takes effect at its push to `full`, a receive at its pop from `full`.
// Theorem: (values received, in linearization order) ++ (values still queued) == (values sent, in
// linearization order): nothing invented, duplicated, reordered or lost; and a send is discarded only
// when no index is free (all five queued or in flight).
use vstd::prelude::*;

verus! {

pub enum Loc {
    Free,                    // in the `empty` queue
    Queued,                  // in the `full` queue
    SenderEmpty,             // taken from `empty` by a send, cell not yet written
    SenderFull { v: int },   // cell written, not yet published
    ReceiverFull { v: int }, // taken from `full` by a receive, value not yet moved out
    ReceiverEmpty,           // value moved out, index not yet returned
}

pub struct St {
    pub loc: Map<int, Loc>,          // where each of the five indices is (C06.G-INV: exactly one place)
    pub f: Seq<int>,                 // order of the `full` queue, oldest first
    pub fv: Seq<int>,                // ghost: the value each queued index holds (same length as f)
    pub cell: Map<int, Option<int>>, // payload cells
    pub sent: Seq<int>,              // ghost: values in the order their sends took effect (push to `full`)
    pub recvd: Seq<int>,             // ghost: values in the order their receives took effect (pop from `full`)
}

pub open spec fn idx(i: int) -> bool { 1 <= i <= 5 }

// ---- steps (i ranges over the five indices) ----
pub open spec fn s_pop(s: St, t: St, i: int) -> bool {      // successful CAS on `empty` (which free index: any)
    &&& idx(i) && s.loc[i] == Loc::Free
    &&& t == St { loc: s.loc.insert(i, Loc::SenderEmpty), ..s }
}
pub open spec fn s_write(s: St, t: St, i: int, v: int) -> bool {
    &&& idx(i) && s.loc[i] == Loc::SenderEmpty
    &&& t == St { cell: s.cell.insert(i, Some(v)), loc: s.loc.insert(i, Loc::SenderFull { v }), ..s }
}
pub open spec fn s_push(s: St, t: St, i: int) -> bool {     // successful CAS on `full`: the send takes effect
    &&& idx(i) && s.loc[i] is SenderFull
    &&& t == St { f: s.f.push(i), fv: s.fv.push(s.loc[i]->SenderFull_v), loc: s.loc.insert(i, Loc::Queued),
                  sent: s.sent.push(s.loc[i]->SenderFull_v), ..s }
}
pub open spec fn r_pop(s: St, t: St) -> bool {              // successful CAS on `full`: the receive takes effect
    &&& s.f.len() > 0
    &&& t == St { f: s.f.drop_first(), fv: s.fv.drop_first(),
                  loc: s.loc.insert(s.f[0], Loc::ReceiverFull { v: s.cell[s.f[0]].unwrap() }),
                  recvd: s.recvd.push(s.cell[s.f[0]].unwrap()), ..s }
}
pub open spec fn r_take(s: St, t: St, i: int) -> bool {
    &&& idx(i) && s.loc[i] is ReceiverFull
    &&& t == St { cell: s.cell.insert(i, None), loc: s.loc.insert(i, Loc::ReceiverEmpty), ..s }
}
pub open spec fn r_push(s: St, t: St, i: int) -> bool {     // successful CAS on `empty`
    &&& idx(i) && s.loc[i] == Loc::ReceiverEmpty
    &&& t == St { loc: s.loc.insert(i, Loc::Free), ..s }
}
pub open spec fn next(s: St, t: St) -> bool {
    ||| exists|i: int| s_pop(s, t, i)
    ||| exists|i: int, v: int| s_write(s, t, i, v)
    ||| exists|i: int| s_push(s, t, i)
    ||| r_pop(s, t)
    ||| exists|i: int| r_take(s, t, i)
    ||| exists|i: int| r_push(s, t, i)
}

// ---- the property ----
pub open spec fn fifo(s: St) -> bool { s.sent =~= s.recvd + s.fv }

pub open spec fn inv(s: St) -> bool {
    &&& s.f.len() == s.fv.len()
    &&& fifo(s)
    &&& forall|i: int| idx(i) ==> s.loc.dom().contains(i)
    // the `full` queue lists exactly the indices that are Queued, each once
    &&& forall|k: int| 0 <= k < s.f.len() ==> idx(#[trigger] s.f[k]) && s.loc[s.f[k]] == Loc::Queued
    &&& forall|j: int, k: int| 0 <= j < k < s.f.len() ==> s.f[j] != s.f[k]
    // a queued index holds exactly the value recorded for it; a popped one the value its receive returns
    &&& forall|k: int| 0 <= k < s.f.len() ==> s.cell.dom().contains(#[trigger] s.f[k]) && s.cell[s.f[k]] == Some(s.fv[k])
    &&& forall|i: int| idx(i) && (#[trigger] s.loc[i]) is ReceiverFull ==> s.cell.dom().contains(i) && s.cell[i] == Some(s.loc[i]->ReceiverFull_v)
    &&& forall|i: int| idx(i) && (#[trigger] s.loc[i]) is SenderFull ==> s.cell.dom().contains(i) && s.cell[i] == Some(s.loc[i]->SenderFull_v)
}

pub open spec fn init(s: St) -> bool {
    &&& forall|i: int| idx(i) ==> s.loc.dom().contains(i) && s.loc[i] == Loc::Free
    &&& s.f =~= Seq::<int>::empty() && s.fv =~= Seq::<int>::empty()
    &&& s.sent =~= Seq::<int>::empty() && s.recvd =~= Seq::<int>::empty()
}

proof fn init_inv(s: St) requires init(s), ensures inv(s) { }

// Theorem L-FIFO: in every reachable state, received ++ still-queued == sent (in linearization order)
proof fn l_fifo(s: St, t: St) requires inv(s), next(s, t), ensures fifo(s), fifo(t), inv(t) { step_inv(s, t); }

// a send finds no free index only when all five are queued or in flight (C06.FULL-ONLY-WHEN-5 at model level)
proof fn full_only_when_five(s: St)
    requires inv(s), forall|i: int| idx(i) ==> s.loc[i] != Loc::Free,
    ensures forall|i: int| idx(i) ==> (s.loc[i] == Loc::Queued || s.loc[i] is SenderEmpty || s.loc[i] is SenderFull || s.loc[i] is ReceiverFull || s.loc[i] is ReceiverEmpty),
{ }

// non-vacuity: two values sent by different operations come out in the order their pushes took effect
proof fn witness() {
    let l0 = map![1 => Loc::Free, 2 => Loc::Free, 3 => Loc::Free, 4 => Loc::Free, 5 => Loc::Free];
    let s0 = St { loc: l0, f: Seq::<int>::empty(), fv: Seq::<int>::empty(), cell: Map::<int, Option<int>>::empty(), sent: Seq::<int>::empty(), recvd: Seq::<int>::empty() };
    assert(init(s0));
    init_inv(s0);
    let s1 = St { loc: s0.loc.insert(1, Loc::SenderEmpty), ..s0 };
    assert(s_pop(s0, s1, 1));
    let s2 = St { cell: s1.cell.insert(1, Some(77)), loc: s1.loc.insert(1, Loc::SenderFull { v: 77 }), ..s1 };
    assert(s_write(s1, s2, 1, 77));
    let s3 = St { f: s2.f.push(1), fv: s2.fv.push(77), loc: s2.loc.insert(1, Loc::Queued), sent: s2.sent.push(77), ..s2 };
    assert(s_push(s2, s3, 1));
    assert(s3.f.len() > 0 && s3.f[0] == 1 && s3.cell[1] == Some(77));
    let s4 = St { f: s3.f.drop_first(), fv: s3.fv.drop_first(), loc: s3.loc.insert(1, Loc::ReceiverFull { v: 77 }), recvd: s3.recvd.push(77), ..s3 };
    assert(r_pop(s3, s4));
    assert(s4.recvd[0] == 77);
}

proof fn step_inv(s: St, t: St)
    requires inv(s), next(s, t),
    ensures inv(t),
{
    if exists|i: int| s_pop(s, t, i) {
        let i0 = choose|i: int| s_pop(s, t, i);
        assert forall|k: int| 0 <= k < t.f.len() implies idx(#[trigger] t.f[k]) && t.loc[t.f[k]] == Loc::Queued by { assert(s.f[k] != i0); }
    } else if exists|i: int, v: int| s_write(s, t, i, v) {
        let (i0, v0) = choose|i: int, v: int| s_write(s, t, i, v);
        assert forall|k: int| 0 <= k < t.f.len() implies idx(#[trigger] t.f[k]) && t.loc[t.f[k]] == Loc::Queued by { assert(s.f[k] != i0); }
        assert forall|k: int| 0 <= k < t.f.len() implies t.cell.dom().contains(#[trigger] t.f[k]) && t.cell[t.f[k]] == Some(t.fv[k]) by { assert(s.f[k] != i0); }
        assert forall|i: int| idx(i) && (#[trigger] t.loc[i]) is ReceiverFull implies t.cell.dom().contains(i) && t.cell[i] == Some(t.loc[i]->ReceiverFull_v) by { assert(i != i0); }
        assert forall|i: int| idx(i) && (#[trigger] t.loc[i]) is SenderFull implies t.cell.dom().contains(i) && t.cell[i] == Some(t.loc[i]->SenderFull_v) by { if i != i0 { assert(s.loc[i] == t.loc[i]); } }
    } else if exists|i: int| s_push(s, t, i) {
        let i0 = choose|i: int| s_push(s, t, i);
        let v0 = s.loc[i0]->SenderFull_v;
        assert(t.sent =~= t.recvd + t.fv);
        assert forall|k: int| 0 <= k < t.f.len() implies idx(#[trigger] t.f[k]) && t.loc[t.f[k]] == Loc::Queued by {
            if k < s.f.len() { assert(t.f[k] == s.f[k]); assert(s.f[k] != i0); } else { assert(t.f[k] == i0); }
        }
        assert forall|j: int, k: int| 0 <= j < k < t.f.len() implies t.f[j] != t.f[k] by {
            if k < s.f.len() { assert(t.f[j] == s.f[j] && t.f[k] == s.f[k]); } else { assert(t.f[k] == i0); assert(t.f[j] == s.f[j]); assert(s.loc[s.f[j]] == Loc::Queued); }
        }
        assert(s.cell.dom().contains(i0) && s.cell[i0] == Some(v0)); // written by this sender, untouched since (owned)
        assert forall|k: int| 0 <= k < t.f.len() implies t.cell.dom().contains(#[trigger] t.f[k]) && t.cell[t.f[k]] == Some(t.fv[k]) by {
            if k < s.f.len() { assert(t.f[k] == s.f[k] && t.fv[k] == s.fv[k]); } else { assert(t.f[k] == i0 && t.fv[k] == v0); }
        }
        assert forall|i: int| idx(i) && (#[trigger] t.loc[i]) is ReceiverFull implies t.cell.dom().contains(i) && t.cell[i] == Some(t.loc[i]->ReceiverFull_v) by { assert(i != i0); }
    } else if r_pop(s, t) {
        let i0 = s.f[0];
        assert(s.cell[i0] == Some(s.fv[0]));
        assert(s.recvd + s.fv =~= s.recvd.push(s.fv[0]) + s.fv.drop_first());
        assert forall|k: int| 0 <= k < t.f.len() implies idx(#[trigger] t.f[k]) && t.loc[t.f[k]] == Loc::Queued by { assert(t.f[k] == s.f[k + 1]); assert(s.f[0] != s.f[k + 1]); }
        assert forall|j: int, k: int| 0 <= j < k < t.f.len() implies t.f[j] != t.f[k] by { assert(t.f[j] == s.f[j + 1] && t.f[k] == s.f[k + 1]); }
        assert forall|k: int| 0 <= k < t.f.len() implies t.cell.dom().contains(#[trigger] t.f[k]) && t.cell[t.f[k]] == Some(t.fv[k]) by { assert(t.f[k] == s.f[k + 1] && t.fv[k] == s.fv[k + 1]); }
        assert forall|i: int| idx(i) && (#[trigger] t.loc[i]) is ReceiverFull implies t.cell.dom().contains(i) && t.cell[i] == Some(t.loc[i]->ReceiverFull_v) by { }
    } else if exists|i: int| r_take(s, t, i) {
        let i0 = choose|i: int| r_take(s, t, i);
        assert forall|k: int| 0 <= k < t.f.len() implies idx(#[trigger] t.f[k]) && t.loc[t.f[k]] == Loc::Queued by { assert(s.f[k] != i0); }
        assert forall|k: int| 0 <= k < t.f.len() implies t.cell.dom().contains(#[trigger] t.f[k]) && t.cell[t.f[k]] == Some(t.fv[k]) by { assert(s.f[k] != i0); }
        assert forall|i: int| idx(i) && (#[trigger] t.loc[i]) is ReceiverFull implies t.cell.dom().contains(i) && t.cell[i] == Some(t.loc[i]->ReceiverFull_v) by { assert(i != i0); }
    } else {
        let i0 = choose|i: int| r_push(s, t, i);
        assert forall|k: int| 0 <= k < t.f.len() implies idx(#[trigger] t.f[k]) && t.loc[t.f[k]] == Loc::Queued by { assert(s.f[k] != i0); }
    }
}

} // verus!

fn main() {}
