// L-PIPE: composition lemma for C09 ("never parked with an unreported signal and no wake-up outstanding")
// over the ordering contracts proved by Kani on backend.rs / pipe.rs / exfiltrator:
//   handler  : C09.STORE-THEN-WAKE (mark the slot, THEN write one byte, non-blocking), C09.RIGHT-SLOT
//   consumer : blocking read of one byte (C09.HAS-SIGNALS), then C09.DRAIN-THEN-SCAN / C09.NO-DRAIN-AFTER-SCAN
//              (drain, THEN scan every slot from 0, never draining once the scan has begun),
//              C10.CLEAR-ATOMIC (examine-and-clear of one slot is one atomic step), C09.SCAN-ALL
// Kernel facts assumed (ledger A5): a byte written to the socket stays until it is read; a non-blocking
// write fails only when the buffer already holds bytes.
// Pure spec/proof code. Any number of slots and of concurrent deliveries.
use vstd::prelude::*;

verus! {

pub enum C {
    Blocked,              // in (or about to enter) the blocking read
    Draining,             // the read returned; recv(MSG_DONTWAIT) loop
    Scanning { pos: int } // drained; examining slots pos, pos+1, ...
}

pub struct St {
    pub bytes: nat,            // bytes in the self-pipe
    pub slot: Map<int, bool>,  // signal -> marked
    pub pend: Map<int, nat>,   // signal -> deliveries that have marked the slot but not yet written the byte
    pub c: C,
    pub n: int,                // number of slots
}

pub open spec fn marked(s: St, i: int) -> bool { s.slot.dom().contains(i) && s.slot[i] }
pub open spec fn pending(s: St, i: int) -> nat { if s.pend.dom().contains(i) { s.pend[i] } else { 0 } }

// ---- handler steps ----
pub open spec fn h_store(s: St, t: St, i: int) -> bool {
    &&& 0 <= i < s.n
    &&& t == St { slot: s.slot.insert(i, true), pend: s.pend.insert(i, pending(s, i) + 1), ..s }
}
pub open spec fn h_send(s: St, t: St, i: int) -> bool {
    &&& pending(s, i) > 0
    // the byte is queued, or the write fails because the buffer is full - then bytes are outstanding anyway
    &&& (t.bytes == s.bytes + 1 || (s.bytes > 0 && t.bytes == s.bytes))
    &&& t == St { bytes: t.bytes, pend: s.pend.insert(i, (pending(s, i) - 1) as nat), ..s }
}
// ---- consumer steps ----
pub open spec fn c_wake(s: St, t: St) -> bool {
    &&& s.c == C::Blocked && s.bytes > 0
    &&& t == St { bytes: (s.bytes - 1) as nat, c: C::Draining, ..s }
}
pub open spec fn c_drain(s: St, t: St) -> bool {      // one recv of the drain loop (takes any number of bytes)
    &&& s.c == C::Draining
    &&& t.bytes <= s.bytes
    &&& (t.c == C::Draining || (t.bytes == 0 && t.c == C::Scanning { pos: 0 }))
    &&& t == St { bytes: t.bytes, c: t.c, ..s }
}
pub open spec fn c_scan(s: St, t: St) -> bool {       // examine-and-clear one slot
    &&& s.c is Scanning
    &&& { let p = s.c->Scanning_pos;
          if p < s.n {
              t == St { slot: s.slot.insert(p, false), c: C::Scanning { pos: p + 1 }, ..s }   // (reported if it was marked)
          } else {
              t == St { c: C::Blocked, ..s }
          } }
}
pub open spec fn next(s: St, t: St) -> bool {
    ||| exists|i: int| h_store(s, t, i)
    ||| exists|i: int| h_send(s, t, i)
    ||| c_wake(s, t)
    ||| c_drain(s, t)
    ||| c_scan(s, t)
}

// ---- the property ----
// The consumer is never blocked while some delivered signal is still unreported, unless a wake-up byte is
// in the pipe or the delivery that marked it is still on its way to write one.
pub open spec fn safe(s: St) -> bool {
    s.c == C::Blocked ==> forall|i: int| #[trigger] marked(s, i) ==> (s.bytes > 0 || pending(s, i) > 0)
}

pub open spec fn inv(s: St) -> bool {
    &&& s.n >= 0
    &&& (s.c is Scanning ==> 0 <= s.c->Scanning_pos <= s.n)
    &&& forall|i: int| #[trigger] marked(s, i) ==> 0 <= i < s.n
    &&& forall|i: int| #[trigger] marked(s, i) ==> {
            ||| s.bytes > 0
            ||| pending(s, i) > 0
            ||| s.c == C::Draining                               // a full scan is still to come
            ||| (s.c is Scanning && i >= s.c->Scanning_pos)      // the scan has not passed it yet
        }
}

pub open spec fn init(s: St) -> bool {
    &&& s.n >= 0 && s.bytes == 0 && s.c == C::Blocked
    &&& forall|i: int| !marked(s, i)
}

proof fn init_inv(s: St) requires init(s), ensures inv(s) { }

proof fn inv_safe(s: St) requires inv(s), ensures safe(s) { }

proof fn step_inv(s: St, t: St)
    requires inv(s), next(s, t),
    ensures inv(t),
{
    if exists|i: int| h_store(s, t, i) {
        let i0 = choose|i: int| h_store(s, t, i);
        assert forall|i: int| #[trigger] marked(t, i) implies (0 <= i < t.n && (t.bytes > 0 || pending(t, i) > 0 || t.c == C::Draining || (t.c is Scanning && i >= t.c->Scanning_pos))) by {
            if i == i0 { assert(pending(t, i) == pending(s, i) + 1); } else { assert(marked(s, i)); assert(pending(t, i) == pending(s, i)); }
        }
    } else if exists|i: int| h_send(s, t, i) {
        let i0 = choose|i: int| h_send(s, t, i);
        assert(t.bytes > 0);
        assert forall|i: int| #[trigger] marked(t, i) implies (0 <= i < t.n && (t.bytes > 0 || pending(t, i) > 0 || t.c == C::Draining || (t.c is Scanning && i >= t.c->Scanning_pos))) by {
            assert(marked(s, i));
        }
    } else if c_wake(s, t) {
        assert forall|i: int| #[trigger] marked(t, i) implies (0 <= i < t.n && (t.bytes > 0 || pending(t, i) > 0 || t.c == C::Draining || (t.c is Scanning && i >= t.c->Scanning_pos))) by {
            assert(marked(s, i));
        }
    } else if c_drain(s, t) {
        assert forall|i: int| #[trigger] marked(t, i) implies (0 <= i < t.n && (t.bytes > 0 || pending(t, i) > 0 || t.c == C::Draining || (t.c is Scanning && i >= t.c->Scanning_pos))) by {
            assert(marked(s, i));
        }
    } else {
        assert(c_scan(s, t));
        let p = s.c->Scanning_pos;
        assert forall|i: int| #[trigger] marked(t, i) implies (0 <= i < t.n && (t.bytes > 0 || pending(t, i) > 0 || t.c == C::Draining || (t.c is Scanning && i >= t.c->Scanning_pos))) by {
            if p < s.n {
                assert(i != p);
                assert(marked(s, i));
            } else {
                assert(marked(s, i));
            }
        }
    }
}

// Theorem L-PIPE
proof fn l_pipe(s: St, t: St) requires inv(s), next(s, t), ensures safe(s), safe(t) {
    inv_safe(s); step_inv(s, t); inv_safe(t);
}

// Why the order matters (non-vacuity): had the handler written the byte BEFORE marking the slot, the state
// "blocked, slot marked, no byte, nobody on the way" would be reachable; `safe` really excludes it.
proof fn witness() {
    let bad = St { bytes: 0, slot: map![3 => true], pend: Map::<int, nat>::empty(), c: C::Blocked, n: 5 };
    assert(marked(bad, 3));
    assert(!safe(bad));
    let good = St { bytes: 1, ..bad };
    assert(inv(good)) by {
        assert forall|i: int| #[trigger] marked(good, i) implies 0 <= i < good.n by { if i != 3 { assert(!good.slot.dom().contains(i)); } }
    }
}

} // verus!

fn main() {}
