// L-RCU: composition lemma for C01 over the per-function contracts proved by Kani on half_lock.rs.
// Pure spec/proof code (no executable code is verified here). The steps of the transition system are
// exactly the trace contracts:
//   reader  : C01.R-ORDER  (announce on a slot, THEN load the pointer), C01.R-DEC (leave the same slot)
//   writer  : C01.S-ORDER  (swap first; free(old) only after the barrier), C01.W-ZERO (barrier returns only
//             after each slot was observed empty since the swap), C01.S-FREE-ONCE (exactly `old` is freed)
// under sequentially consistent interleaving (C01.R-SEQCST makes the four store/load accesses SeqCst; that
// SeqCst accesses have one total order is ledger entry A1). The reader counter of slot s is abstracted by
// the SET of readers currently announced on s (inc/dec pairing is C01.R-SLOT / C01.R-DEC; the counter
// cannot overflow by A9), "observed at zero" = the set is empty. Any number of readers; a reader may pick
// ANY slot (so the theorem does not depend on the generation at all - that only matters for progress).
use vstd::prelude::*;

verus! {

pub enum R {
    Idle,
    Announced { slot: int },          // after fetch_add, before the pointer load
    Holding { slot: int, ptr: int },  // guard alive: may dereference ptr
}

pub enum W {
    Idle,                 // no store in progress (other mutators wait on the writer mutex)
    Waiting { old: int }, // swapped; barrier running; `old` not yet freed
}

pub struct St {
    pub data: int,               // current snapshot pointer
    pub freed: Set<int>,         // pointers released so far
    pub readers: Map<int, R>,    // reader id -> state (absent = Idle)
    pub on: Map<int, Set<int>>,  // slot -> readers currently announced on it (abstracts lock[slot])
    pub w: W,
    pub seen: Map<int, bool>,    // slot -> barrier has observed it empty since the swap
}

pub open spec fn rstate(s: St, r: int) -> R {
    if s.readers.dom().contains(r) { s.readers[r] } else { R::Idle }
}

pub open spec fn slot_ok(x: int) -> bool { x == 0 || x == 1 }

pub open spec fn wf(s: St) -> bool {
    &&& s.on.dom().contains(0) && s.on.dom().contains(1)
    &&& s.seen.dom().contains(0) && s.seen.dom().contains(1)
}

// ---- steps -------------------------------------------------------------------------------------
pub open spec fn r_announce(s: St, t: St, r: int, slot: int) -> bool {
    &&& slot_ok(slot)
    &&& rstate(s, r) == R::Idle
    &&& t == St { readers: s.readers.insert(r, R::Announced { slot }), on: s.on.insert(slot, s.on[slot].insert(r)), ..s }
}

pub open spec fn r_load(s: St, t: St, r: int) -> bool {
    &&& rstate(s, r) is Announced
    &&& t == St { readers: s.readers.insert(r, R::Holding { slot: rstate(s, r)->Announced_slot, ptr: s.data }), ..s }
}

pub open spec fn r_drop(s: St, t: St, r: int) -> bool {
    &&& rstate(s, r) is Holding
    &&& t == St {
        readers: s.readers.insert(r, R::Idle),
        on: s.on.insert(rstate(s, r)->Holding_slot, s.on[rstate(s, r)->Holding_slot].remove(r)),
        ..s
    }
}

pub open spec fn w_swap(s: St, t: St, new: int) -> bool {
    &&& s.w == W::Idle
    &&& new != s.data && !s.freed.contains(new)   // a fresh Box
    &&& t == St { data: new, w: W::Waiting { old: s.data }, seen: map![0 => false, 1 => false], ..s }
}

pub open spec fn w_observe(s: St, t: St, slot: int) -> bool {   // one load of update_seen
    &&& slot_ok(slot)
    &&& s.w is Waiting
    &&& t == St { seen: s.seen.insert(slot, s.seen[slot] || s.on[slot] =~= Set::<int>::empty()), ..s }
}

pub open spec fn w_free(s: St, t: St) -> bool {                 // barrier returned; drop(Box::from_raw(old))
    &&& s.w is Waiting
    &&& s.seen[0] && s.seen[1]
    &&& t == St { freed: s.freed.insert(s.w->Waiting_old), w: W::Idle, ..s }
}

pub open spec fn next(s: St, t: St) -> bool {
    ||| exists|r: int, slot: int| r_announce(s, t, r, slot)
    ||| exists|r: int| r_load(s, t, r)
    ||| exists|r: int| r_drop(s, t, r)
    ||| exists|new: int| w_swap(s, t, new)
    ||| exists|slot: int| w_observe(s, t, slot)
    ||| w_free(s, t)
}

pub open spec fn init(s: St) -> bool {
    &&& wf(s)
    &&& s.freed =~= Set::<int>::empty()
    &&& s.readers =~= Map::<int, R>::empty()
    &&& s.on[0] =~= Set::<int>::empty() && s.on[1] =~= Set::<int>::empty()
    &&& s.w == W::Idle
}

// ---- the property: nothing released is touched --------------------------------------------------
pub open spec fn safe(s: St) -> bool {
    &&& !s.freed.contains(s.data)                                   // a later reader never gets a freed pointer
    &&& forall|r: int| (#[trigger] rstate(s, r)) is Holding ==> !s.freed.contains(rstate(s, r)->Holding_ptr)
}

// ---- inductive invariant -------------------------------------------------------------------------
pub open spec fn inv(s: St) -> bool {
    &&& wf(s)
    &&& !s.freed.contains(s.data)
    &&& (s.w is Waiting ==> s.w->Waiting_old != s.data && !s.freed.contains(s.w->Waiting_old))
    // the announced sets are exactly the readers past their increment on that slot
    &&& forall|r: int, slot: int| slot_ok(slot) ==> (#[trigger] s.on[slot].contains(r) <==>
            (rstate(s, r) == R::Announced { slot } || (rstate(s, r) is Holding && rstate(s, r)->Holding_slot == slot)))
    &&& forall|r: int| (#[trigger] rstate(s, r)) is Announced ==> slot_ok(rstate(s, r)->Announced_slot)
    // a guard holds the current snapshot, or the one being retired - and then its slot has NOT been seen empty
    &&& forall|r: int| (#[trigger] rstate(s, r)) is Holding ==> {
            let p = rstate(s, r)->Holding_ptr;
            let sl = rstate(s, r)->Holding_slot;
            &&& slot_ok(sl)
            &&& (p == s.data || (s.w is Waiting && p == s.w->Waiting_old && !s.seen[sl]))
        }
}

proof fn inv_implies_safe(s: St)
    requires inv(s),
    ensures safe(s),
{
}

proof fn init_inv(s: St)
    requires init(s),
    ensures inv(s),
{
    assert forall|r: int, slot: int| slot_ok(slot) implies (#[trigger] s.on[slot].contains(r) <==>
        (rstate(s, r) == R::Announced { slot } || (rstate(s, r) is Holding && rstate(s, r)->Holding_slot == slot))) by {
        assert(rstate(s, r) == R::Idle);
    }
}

proof fn step_inv(s: St, t: St)
    requires inv(s), next(s, t),
    ensures inv(t),
{
    if exists|r: int, slot: int| r_announce(s, t, r, slot) {
        let (r0, sl0) = choose|r: int, slot: int| r_announce(s, t, r, slot);
        assert forall|r: int, slot: int| slot_ok(slot) implies (#[trigger] t.on[slot].contains(r) <==>
            (rstate(t, r) == R::Announced { slot } || (rstate(t, r) is Holding && rstate(t, r)->Holding_slot == slot))) by {
            if r == r0 { } else { assert(rstate(t, r) == rstate(s, r)); assert(s.on[slot].contains(r) == t.on[slot].contains(r)); }
        }
        assert forall|r: int| (#[trigger] rstate(t, r)) is Holding implies {
            let p = rstate(t, r)->Holding_ptr; let sl = rstate(t, r)->Holding_slot;
            slot_ok(sl) && (p == t.data || (t.w is Waiting && p == t.w->Waiting_old && !t.seen[sl])) } by {
            assert(r != r0); assert(rstate(t, r) == rstate(s, r));
        }
        assert forall|r: int| (#[trigger] rstate(t, r)) is Announced implies slot_ok(rstate(t, r)->Announced_slot) by {
            if r != r0 { assert(rstate(t, r) == rstate(s, r)); }
        }
    } else if exists|r: int| r_load(s, t, r) {
        let r0 = choose|r: int| r_load(s, t, r);
        assert forall|r: int, slot: int| slot_ok(slot) implies (#[trigger] t.on[slot].contains(r) <==>
            (rstate(t, r) == R::Announced { slot } || (rstate(t, r) is Holding && rstate(t, r)->Holding_slot == slot))) by {
            if r != r0 { assert(rstate(t, r) == rstate(s, r)); }
        }
        assert forall|r: int| (#[trigger] rstate(t, r)) is Holding implies {
            let p = rstate(t, r)->Holding_ptr; let sl = rstate(t, r)->Holding_slot;
            slot_ok(sl) && (p == t.data || (t.w is Waiting && p == t.w->Waiting_old && !t.seen[sl])) } by {
            if r != r0 { assert(rstate(t, r) == rstate(s, r)); }
        }
        assert forall|r: int| (#[trigger] rstate(t, r)) is Announced implies slot_ok(rstate(t, r)->Announced_slot) by {
            if r != r0 { assert(rstate(t, r) == rstate(s, r)); }
        }
    } else if exists|r: int| r_drop(s, t, r) {
        let r0 = choose|r: int| r_drop(s, t, r);
        let sl0 = rstate(s, r0)->Holding_slot;
        assert(slot_ok(sl0));
        assert forall|r: int, slot: int| slot_ok(slot) implies (#[trigger] t.on[slot].contains(r) <==>
            (rstate(t, r) == R::Announced { slot } || (rstate(t, r) is Holding && rstate(t, r)->Holding_slot == slot))) by {
            if r != r0 { assert(rstate(t, r) == rstate(s, r)); assert(s.on[slot].contains(r) == t.on[slot].contains(r)); }
            else { assert(rstate(t, r) == R::Idle); assert(s.on[slot].contains(r0) <==> slot == sl0); }
        }
        assert forall|r: int| (#[trigger] rstate(t, r)) is Holding implies {
            let p = rstate(t, r)->Holding_ptr; let sl = rstate(t, r)->Holding_slot;
            slot_ok(sl) && (p == t.data || (t.w is Waiting && p == t.w->Waiting_old && !t.seen[sl])) } by {
            if r != r0 { assert(rstate(t, r) == rstate(s, r)); }
        }
        assert forall|r: int| (#[trigger] rstate(t, r)) is Announced implies slot_ok(rstate(t, r)->Announced_slot) by {
            if r != r0 { assert(rstate(t, r) == rstate(s, r)); }
        }
    } else if exists|new: int| w_swap(s, t, new) {
        assert forall|r: int| rstate(t, r) == rstate(s, r) by { }
        assert forall|r: int| (#[trigger] rstate(t, r)) is Holding implies {
            let p = rstate(t, r)->Holding_ptr; let sl = rstate(t, r)->Holding_slot;
            slot_ok(sl) && (p == t.data || (t.w is Waiting && p == t.w->Waiting_old && !t.seen[sl])) } by {
            assert(rstate(t, r) == rstate(s, r));
            // before the swap the writer was idle, so every guard held s.data == the new `old`
        }
    } else if exists|slot: int| w_observe(s, t, slot) {
        let sl0 = choose|slot: int| w_observe(s, t, slot);
        assert forall|r: int| rstate(t, r) == rstate(s, r) by { }
        assert forall|r: int| (#[trigger] rstate(t, r)) is Holding implies {
            let p = rstate(t, r)->Holding_ptr; let sl = rstate(t, r)->Holding_slot;
            slot_ok(sl) && (p == t.data || (t.w is Waiting && p == t.w->Waiting_old && !t.seen[sl])) } by {
            assert(rstate(t, r) == rstate(s, r));
            let sl = rstate(s, r)->Holding_slot;
            if sl == sl0 && s.on[sl0] =~= Set::<int>::empty() {
                // r is announced on sl0, so the set is not empty: this case cannot happen
                assert(s.on[sl0].contains(r));
                assert(false);
            }
        }
    } else {
        assert(w_free(s, t));
        assert forall|r: int| rstate(t, r) == rstate(s, r) by { }
        assert forall|r: int| (#[trigger] rstate(t, r)) is Holding implies {
            let p = rstate(t, r)->Holding_ptr; let sl = rstate(t, r)->Holding_slot;
            slot_ok(sl) && (p == t.data || (t.w is Waiting && p == t.w->Waiting_old && !t.seen[sl])) } by {
            assert(rstate(t, r) == rstate(s, r));
        }
    }
}

// Theorem L-RCU: in every reachable state no guard refers to a released snapshot and the current pointer
// is not released; in particular at the step w_free no reader holds `old`.
proof fn l_rcu(s: St, t: St)
    requires inv(s), next(s, t),
    ensures safe(s), safe(t),
{
    inv_implies_safe(s);
    step_inv(s, t);
    inv_implies_safe(t);
}

// Non-vacuity: the invariant is satisfiable, a writer can get through swap -> observe x2 -> free while a
// reader that announced before the swap keeps it waiting (so `w_free` is really guarded by the barrier).
proof fn witness()
{
    let e = Set::<int>::empty();
    let s0 = St { data: 10, freed: e, readers: Map::<int, R>::empty(), on: map![0 => e, 1 => e], w: W::Idle, seen: map![0 => false, 1 => false] };
    assert(init(s0));
    init_inv(s0);
    // reader 7 announces on slot 1 and loads pointer 10
    let s1 = St { readers: s0.readers.insert(7, R::Announced { slot: 1 }), on: s0.on.insert(1, s0.on[1].insert(7)), ..s0 };
    assert(r_announce(s0, s1, 7, 1));
    let s2 = St { readers: s1.readers.insert(7, R::Holding { slot: 1, ptr: 10 }), ..s1 };
    assert(rstate(s1, 7) == R::Announced { slot: 1 });
    assert(r_load(s1, s2, 7));
    // the writer swaps in 11 and observes: slot 0 is empty, slot 1 is not
    let s3 = St { data: 11, w: W::Waiting { old: 10 }, seen: map![0 => false, 1 => false], ..s2 };
    assert(w_swap(s2, s3, 11));
    let s4 = St { seen: s3.seen.insert(1, s3.seen[1] || s3.on[1] =~= e), ..s3 };
    assert(w_observe(s3, s4, 1));
    assert(s3.on[1].contains(7));
    assert(!(s3.on[1] =~= e));
    assert(!s4.seen[1]);           // the barrier cannot pass slot 1 while reader 7 is inside
    assert(!(s4.seen[0] && s4.seen[1]));
}

} // verus!

fn main() {}
