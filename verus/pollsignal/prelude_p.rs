// ---- PRELUDE P (hand-written, trusted): stand-ins for what `SignalIterator::poll_signal` touches, and the ASSUMED
// contracts of its three callees over a ghost state (trace + "a load of the closed flag returned true").
// Each contract is what Kani proves on the real bodies in backend.rs on the real 128-slot table:
//  * Handle::is_closed  - one SeqCst load of a flag that is only ever set (C11.STICKY): once seen true, always true;
//  * Pending::next      - one scan step (C09.SCAN-ALL, C10.ADVANCE-ON-NONE, C10.INDEX-IS-SIGNAL): here only "returns Some(v) or None";
//  * SignalDelivery::pending - non-blocking drain, then a new batch (C09.DRAIN-THEN-SCAN): one event `Fresh`;
//  * a call of the readiness callback: one event carrying its answer.
// `poll_pending` is NOT assumed: its body is extracted and verified against `poll_pending_post` in this same file, and
// poll_signal sees only that contract (modular verification inside one tool).
// `Exfiltrator` (sealed trait with an `Output` type), `AsRawFd` and `SignalDelivery` (only its `handle` field is named
// by poll_signal) are stand-ins; `BorrowMut` gets an external trait specification.
#[verifier::external_type_specification]
#[verifier::external_body]
pub struct ExIoError(std::io::Error);
#[verifier::external_trait_specification]
pub trait ExBorrow<Borrowed: ?Sized> {
    type ExternalTraitSpecificationFor: core::borrow::Borrow<Borrowed>;
    fn borrow(&self) -> &Borrowed;
}
#[verifier::external_trait_specification]
pub trait ExBorrowMut<Borrowed: ?Sized>: core::borrow::Borrow<Borrowed> {
    type ExternalTraitSpecificationFor: core::borrow::BorrowMut<Borrowed>;
    fn borrow_mut(&mut self) -> &mut Borrowed;
}
pub trait Exfiltrator { type Output; }
pub trait AsRawFd {
    spec fn fd(&self) -> i32;
    fn as_raw_fd(&self) -> (r: i32) ensures r == self.fd();
}
/// libc stand-in for `flush`: one ghost event per `recv` call (assumed contract: the call itself; the kernel's behaviour -
/// MSG_DONTWAIT never blocks, a result <= 0 means "nothing more to read now" or an error - is ledger A3)
pub struct RecvEv { pub fd: i32, pub len: usize, pub flags: i32, pub ret: isize }
pub mod libc {
    use super::*;
    #[verifier::external_body] pub struct c_void { _p: u8 }
    pub const MSG_DONTWAIT: i32 = 0x40;
    #[verifier::external_body]
    pub unsafe fn recv(fd: i32, buf: *mut c_void, len: usize, flags: i32, tr: &mut Ghost<Seq<RecvEv>>) -> (r: isize)
        ensures final(tr)@ == old(tr)@.push(RecvEv { fd, len, flags, ret: r })
    { unimplemented!() }
}
pub assume_specification<T> [<[T]>::as_mut_ptr] (_0: &mut [T]) -> *mut T;
pub enum CbAns { False, True, Err }
pub enum PEv<O> { Closed(bool), Next(Option<O>), Cb(CbAns), Fresh }
/// ghost state of one poll_signal call: the trace of what it did, and whether any load of the closed flag returned true
pub struct PS<O> { pub tr: Seq<PEv<O>>, pub closed_seen: bool }

#[verifier::external_body]
pub struct Handle { _p: u8 }
impl Handle {
    #[verifier::external_body]
    pub fn is_closed<O>(&self, tr: &mut Ghost<PS<O>>) -> (r: bool)
        ensures final(tr)@.tr == old(tr)@.tr.push(PEv::Closed(r)), final(tr)@.closed_seen == (old(tr)@.closed_seen || r), old(tr)@.closed_seen ==> r
    { unimplemented!() }
}
#[verifier::external_body]
#[verifier::accept_recursive_types(E)]
pub struct Pending<E: Exfiltrator> { _p: core::marker::PhantomData<E> }
impl<E: Exfiltrator> Pending<E> {
    #[verifier::external_body]
    fn next(&mut self, tr: &mut Ghost<PS<E::Output>>) -> (r: Option<E::Output>)
        ensures final(tr)@.tr == old(tr)@.tr.push(PEv::Next(r)), final(tr)@.closed_seen == old(tr)@.closed_seen
    { unimplemented!() }
}
#[verifier::reject_recursive_types(R)]
#[verifier::reject_recursive_types(E)]
pub struct SignalDelivery<R, E: Exfiltrator> {
    read: R,
    handle: Handle,
    pending: core::marker::PhantomData<E>,
}
/// contract of poll_pending (verified below on its extracted body, used by poll_signal at its call site):
/// closed => Ok(None) and the callback is NOT consulted; otherwise the callback is consulted exactly once and
/// Ok(false) => Ok(None), Ok(true) => drain + fresh batch => Ok(Some(batch)), Err(e) => Err(e); nothing else happens
pub open spec fn poll_pending_post<O>(s0: PS<O>, s1: PS<O>, some: bool, none: bool, err: bool) -> bool {
    ||| none && !some && !err && s1.closed_seen && s1.tr == s0.tr.push(PEv::Closed(true))
    ||| none && !some && !err && !s0.closed_seen && !s1.closed_seen && s1.tr == s0.tr.push(PEv::Closed(false)).push(PEv::Cb(CbAns::False))
    ||| some && !none && !err && !s0.closed_seen && !s1.closed_seen && s1.tr == s0.tr.push(PEv::Closed(false)).push(PEv::Cb(CbAns::True)).push(PEv::Fresh)
    ||| err && !none && !some && !s0.closed_seen && !s1.closed_seen && s1.tr == s0.tr.push(PEv::Closed(false)).push(PEv::Cb(CbAns::Err))
}
pub open spec fn cb_ans(r: Result<bool, Error>) -> CbAns {
    match r { Ok(true) => CbAns::True, Ok(false) => CbAns::False, Err(_) => CbAns::Err }
}
/// a call of the readiness callback (`has_signals(<read end>)`, rewrite Q2): one event carrying its answer
#[verifier::external_body]
fn verif_call_cb<R, F, O>(f: &mut F, r: &mut R, tr: &mut Ghost<PS<O>>) -> (res: Result<bool, Error>)
    where F: FnMut(&mut R) -> Result<bool, Error>,
    ensures final(tr)@.tr == old(tr)@.tr.push(PEv::Cb(cb_ans(res))), final(tr)@.closed_seen == old(tr)@.closed_seen
{ unimplemented!() }
impl<R, E: Exfiltrator> SignalDelivery<R, E> where R: 'static + AsRawFd + Send + Sync {
    #[verifier::external_body]
    pub fn get_read_mut(&mut self) -> &mut R { unimplemented!() }
    /// flush (non-blocking drain of the self-pipe) then a new batch positioned at slot 0 (Kani: C09.DRAIN-THEN-SCAN)
    #[verifier::external_body]
    pub fn pending(&mut self, tr: &mut Ghost<PS<E::Output>>) -> (r: Pending<E>)
        ensures final(tr)@.tr == old(tr)@.tr.push(PEv::Fresh), final(tr)@.closed_seen == old(tr)@.closed_seen
    { unimplemented!() }
}
