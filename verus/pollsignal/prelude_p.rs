// ---- PRELUDE P (hand-written, trusted): stand-ins for what `SignalIterator::poll_signal` touches, and the ASSUMED
// contracts of its three callees over a ghost state (trace + "a load of the closed flag returned true").
// Each contract is what Kani proves on the real bodies in backend.rs on the real 128-slot table:
//  * Handle::is_closed  - one SeqCst load of a flag that is only ever set (C11.STICKY): once seen true, always true;
//  * Pending::next      - one scan step (C09.SCAN-ALL, C10.ADVANCE-ON-NONE, C10.INDEX-IS-SIGNAL): here only "returns Some(v) or None";
//  * poll_pending       - loads the flag first; closed => Ok(None) WITHOUT consulting the callback (C11.NO-BLOCK-AFTER-CLOSE);
//                         otherwise consults it exactly once: Ok(false) => Ok(None), Ok(true) => drain + fresh batch, Err => Err
//                         (C11.POLL-PENDING-*, C09.DRAIN-THEN-SCAN). Its PRECONDITION is part of the property: it may only be
//                         called right after a scan step that returned None and never after the flag was seen set.
// `Exfiltrator` (sealed trait with an `Output` type), `AsRawFd` and `SignalDelivery` (only its `handle` field is named
// by poll_signal) are stand-ins; `BorrowMut` gets an external trait specification.
#[verifier::external_type_specification]
#[verifier::external_body]
pub struct ExIoError(std::io::Error);
#[verifier::external_trait_specification]
pub trait ExBorrow<Borrowed: ?Sized> {
    type ExternalTraitSpecificationFor: core::borrow::Borrow<Borrowed>;
    fn borrow(&self) -> &Borrowed;
}
#[verifier::external_trait_specification]
pub trait ExBorrowMut<Borrowed: ?Sized>: core::borrow::Borrow<Borrowed> {
    type ExternalTraitSpecificationFor: core::borrow::BorrowMut<Borrowed>;
    fn borrow_mut(&mut self) -> &mut Borrowed;
}
pub trait Exfiltrator { type Output; }
pub trait AsRawFd {}
pub enum PK { ClosedNoCall, CbFalse, CbTrue, CbErr }
pub enum PEv<O> { Closed(bool), Next(Option<O>), Poll(PK) }
/// ghost state of one poll_signal call: the trace of what it did, and whether any load of the closed flag returned true
pub struct PS<O> { pub tr: Seq<PEv<O>>, pub closed_seen: bool }

#[verifier::external_body]
pub struct Handle { _p: u8 }
impl Handle {
    #[verifier::external_body]
    pub fn is_closed<O>(&self, tr: &mut Ghost<PS<O>>) -> (r: bool)
        ensures final(tr)@.tr == old(tr)@.tr.push(PEv::Closed(r)), final(tr)@.closed_seen == (old(tr)@.closed_seen || r), old(tr)@.closed_seen ==> r
    { unimplemented!() }
}
#[verifier::external_body]
#[verifier::accept_recursive_types(E)]
pub struct Pending<E: Exfiltrator> { _p: core::marker::PhantomData<E> }
impl<E: Exfiltrator> Pending<E> {
    #[verifier::external_body]
    fn next(&mut self, tr: &mut Ghost<PS<E::Output>>) -> (r: Option<E::Output>)
        ensures final(tr)@.tr == old(tr)@.tr.push(PEv::Next(r)), final(tr)@.closed_seen == old(tr)@.closed_seen
    { unimplemented!() }
}
#[verifier::reject_recursive_types(R)]
#[verifier::reject_recursive_types(E)]
pub struct SignalDelivery<R, E: Exfiltrator> {
    read: R,
    handle: Handle,
    pending: core::marker::PhantomData<E>,
}
pub open spec fn poll_pending_post<O>(s0: PS<O>, s1: PS<O>, some: bool, none: bool, err: bool) -> bool {
    let k = s1.tr.last()->Poll_0;
    &&& s1.tr.len() == s0.tr.len() + 2 && s1.tr.last() is Poll
    &&& s1.tr == s0.tr.push(PEv::Closed(k is ClosedNoCall)).push(PEv::Poll(k))
    &&& s1.closed_seen == (s0.closed_seen || k is ClosedNoCall)
    &&& (s0.closed_seen ==> k is ClosedNoCall)
    &&& some == (k is CbTrue)
    &&& none == (k is ClosedNoCall || k is CbFalse)
    &&& err == (k is CbErr)
}
impl<R, E: Exfiltrator> SignalDelivery<R, E> where R: 'static + AsRawFd + Send + Sync {
    #[verifier::external_body]
    pub fn poll_pending<F>(&mut self, has_signals: &mut F, tr: &mut Ghost<PS<E::Output>>) -> (r: Result<Option<Pending<E>>, Error>)
    where F: FnMut(&mut R) -> Result<bool, Error>,
        requires old(tr)@.tr.len() >= 1, old(tr)@.tr.last() == PEv::<E::Output>::Next(None), !old(tr)@.closed_seen,
        ensures poll_pending_post(old(tr)@, final(tr)@, r is Ok && r->Ok_0 is Some, r is Ok && r->Ok_0 is None, r is Err)
    { unimplemented!() }
}
