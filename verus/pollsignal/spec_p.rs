// ---- SPEC (hand-written): the postcondition of poll_signal, one predicate per obligation, over the final ghost state.
/// Pending is reported only when the caller is armed: the last thing done was the callback saying "nothing now"
/// (so whatever it waits on will wake it), followed by one more load of the closed flag that returned false;
/// and the call before that was a scan step that returned None (precondition of poll_pending).
pub open spec fn pending_only_if_armed<O>(s: PS<O>, ret: PollResult<O>) -> bool {
    let n = s.tr.len() as int;
    ret is Pending ==> n >= 2 && s.tr[n - 2] == PEv::<O>::Cb(CbAns::False) && s.tr[n - 1] == PEv::<O>::Closed(false) && !s.closed_seen
}
/// Closed is reported only after a load of the closed flag returned true (the last event)
pub open spec fn closed_only_if_closed<O>(s: PS<O>, ret: PollResult<O>) -> bool {
    let n = s.tr.len() as int;
    ret is Closed ==> n >= 1 && s.tr[n - 1] == PEv::<O>::Closed(true) && s.closed_seen
}
/// a reported signal is exactly what the last scan step returned, and the flag was never seen set before
pub open spec fn signal_from_scan<O>(s: PS<O>, ret: PollResult<O>) -> bool {
    let n = s.tr.len() as int;
    ret is Signal ==> n >= 1 && s.tr[n - 1] == PEv::Next(Some(ret->Signal_0)) && !s.closed_seen
}
/// an error is the callback's error, passed on at once
pub open spec fn err_from_callback<O>(s: PS<O>, ret: PollResult<O>) -> bool {
    let n = s.tr.len() as int;
    ret is Err ==> n >= 1 && s.tr[n - 1] == PEv::<O>::Cb(CbAns::Err) && !s.closed_seen
}
/// non-vacuity: the four predicates are satisfiable together and refute a Pending after a closed poll
proof fn witness_poll_signal_post()
{
    let s = PS::<int> { tr: seq![PEv::Closed(false), PEv::Next(None), PEv::Closed(false), PEv::Cb(CbAns::False), PEv::Closed(false)], closed_seen: false };
    assert(pending_only_if_armed(s, PollResult::<int>::Pending));
    let bad = PS::<int> { tr: seq![PEv::Closed(false), PEv::Next(None), PEv::Closed(true)], closed_seen: true };
    assert(!pending_only_if_armed(bad, PollResult::<int>::Pending));
}

// ---- flush(): the non-blocking drain of the self-pipe (unbounded number of reads)
/// every recv is on the read end, and with MSG_DONTWAIT (never blocks)
pub open spec fn flush_calls_ok(tr: Seq<RecvEv>, fd: i32) -> bool {
    forall|i: int| 0 <= i < tr.len() ==> (#[trigger] tr[i]).fd == fd && tr[i].flags == libc::MSG_DONTWAIT
}
/// the drain continues exactly as long as bytes come: all results but the last are > 0
pub open spec fn flush_all_but_last_positive(tr: Seq<RecvEv>) -> bool {
    forall|i: int| 0 <= i < tr.len() - 1 ==> (#[trigger] tr[i]).ret > 0
}
