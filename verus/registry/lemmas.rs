// ---- LEMMAS (hand-written, machine-checked): whole-history statements of C05 derived from the per-operation
// postconditions - the SAME predicates the overlay asserts inside the real function bodies - and the invariant.
// A history is any sequence of mutator calls (any number, any arguments, any interleaving order: the writer mutex
// serialises them); `stores == 0` means the published snapshot is unchanged.
pub enum Ev {
    RegOk { signal: c_int, act: Arc<Action>, ret: SigId },
    RegErr,
    Unreg { id: SigId, ret: bool },
    UnregSig { signal: c_int, ret: bool },
}
pub closed spec fn step(g0: SignalData, g1: SignalData, e: Ev) -> bool {
    match e {
        Ev::RegOk { signal, act, ret } => post_register_ok(g0, g1, 1, signal, act, ret),
        Ev::RegErr => g1 == g0,
        Ev::Unreg { id, ret } => post_unregister(g0, g1, if ret { 1nat } else { 0nat }, id, ret) && (!ret ==> g1 == g0),
        Ev::UnregSig { signal, ret } => post_unregister_signal(g0, g1, if ret { 1nat } else { 0nat }, signal, ret) && (!ret ==> g1 == g0),
    }
}
pub closed spec fn valid(gs: Seq<SignalData>, es: Seq<Ev>) -> bool {
    &&& gs.len() == es.len() + 1
    &&& sd_inv(gs[0])
    &&& forall|i: int| 0 <= i < es.len() ==> #[trigger] step(gs[i], gs[i + 1], es[i])
}

/// one step: Inv is kept, the id counter never decreases, and nothing becomes live except the id just handed out
proof fn lemma_step(g0: SignalData, g1: SignalData, e: Ev)
    requires sd_inv(g0), step(g0, g1, e),
    ensures
        sd_inv(g1),
        g0.next_id <= g1.next_id,
        forall|id: SigId| #[trigger] live(g1, id) ==> live(g0, id) || (e matches Ev::RegOk { ret, .. } && id == ret),
        e matches Ev::RegOk { ret, .. } ==> ret.action.0 == g0.next_id && g0.next_id < g1.next_id,
        e matches Ev::Unreg { id, ret } ==> ret == live(g0, id) && (ret ==> !live(g1, id)),
{
    let v0 = sd_view(g0);
    let v1 = sd_view(g1);
    match e {
        Ev::RegOk { signal, act, ret } => {
            assert forall|s: c_int, a: ActionId| v1.contains_key(s) && #[trigger] v1[s].1.contains_key(a) implies a.0 < g1.next_id by {
                if s != signal {
                    assert(v0.dom().insert(signal).contains(s));
                    assert(v0.contains_key(s));
                    assert(v0[s].1.contains_key(a));
                } else if a != ret.action {
                    assert(acts(v0, signal).contains_key(a));
                    assert(v0.contains_key(signal) && v0[signal].1.contains_key(a));
                }
            }
            assert forall|id: SigId| #[trigger] live(g1, id) implies live(g0, id) || id == ret by {
                if id.signal != signal {
                    assert(v1.contains_key(id.signal));
                    assert(v0.dom().insert(signal).contains(id.signal));
                    assert(v0.contains_key(id.signal));
                } else if id.action != ret.action {
                    assert(acts(v0, signal).contains_key(id.action));
                }
            }
        },
        Ev::RegErr => {},
        Ev::Unreg { id, ret } => {
            if ret {
                assert forall|s: c_int, a: ActionId| v1.contains_key(s) && #[trigger] v1[s].1.contains_key(a) implies a.0 < g1.next_id by {
                    assert(v0.contains_key(s) && v0[s].1.contains_key(a));
                }
                assert forall|x: SigId| #[trigger] live(g1, x) implies live(g0, x) by {
                    assert(v0.contains_key(x.signal) && v0[x.signal].1.contains_key(x.action));
                }
            }
        },
        Ev::UnregSig { signal, ret } => {
            if ret {
                let a0 = choose|a: ActionId| acts(v0, signal).contains_key(a);
                assert(v0.contains_key(signal));
                assert forall|s: c_int, a: ActionId| v1.contains_key(s) && #[trigger] v1[s].1.contains_key(a) implies a.0 < g1.next_id by {
                    assert(v0.contains_key(s) && v0[s].1.contains_key(a));
                }
                assert forall|x: SigId| #[trigger] live(g1, x) implies live(g0, x) by {
                    assert(v0.contains_key(x.signal) && v0[x.signal].1.contains_key(x.action));
                }
            }
        },
    }
}

/// along any history: Inv everywhere, id counter monotone
proof fn lemma_hist(gs: Seq<SignalData>, es: Seq<Ev>, i: int, j: int)
    requires valid(gs, es), 0 <= i <= j < gs.len(),
    ensures sd_inv(gs[i]), sd_inv(gs[j]), gs[i].next_id <= gs[j].next_id,
    decreases j,
{
    if j == 0 {
    } else if i == j {
        lemma_hist(gs, es, 0, j - 1);
        assert(step(gs[j - 1], gs[j - 1 + 1], es[j - 1]));
        lemma_step(gs[j - 1], gs[j], es[j - 1]);
    } else {
        lemma_hist(gs, es, i, j - 1);
        assert(step(gs[j - 1], gs[j - 1 + 1], es[j - 1]));
        lemma_step(gs[j - 1], gs[j], es[j - 1]);
    }
}

/// C05 "ids are never reused": two successful registrations anywhere in a history return different ids, and the id
/// handed out at step j was not live (for any signal) in any earlier state
proof fn theorem_ids_never_reused(gs: Seq<SignalData>, es: Seq<Ev>, i: int, j: int)
    requires valid(gs, es), 0 <= i < j < es.len(), es[i] is RegOk, es[j] is RegOk,
    ensures es[i]->RegOk_ret.action != es[j]->RegOk_ret.action,
{
    assert(step(gs[i], gs[i + 1], es[i]));
    assert(step(gs[j], gs[j + 1], es[j]));
    lemma_hist(gs, es, i, i);
    lemma_hist(gs, es, i + 1, j);
    lemma_step(gs[i], gs[i + 1], es[i]);
    lemma_step(gs[j], gs[j + 1], es[j]);
}
proof fn theorem_new_id_was_never_live(gs: Seq<SignalData>, es: Seq<Ev>, i: int, j: int, s: c_int)
    requires valid(gs, es), 0 <= i <= j < es.len(), es[j] is RegOk,
    ensures !live(gs[i], SigId { signal: s, action: es[j]->RegOk_ret.action }),
{
    assert(step(gs[j], gs[j + 1], es[j]));
    lemma_hist(gs, es, i, j);
    lemma_step(gs[j], gs[j + 1], es[j]);
    let x = SigId { signal: s, action: es[j]->RegOk_ret.action };
    if live(gs[i], x) {
        assert(sd_view(gs[i]).contains_key(s) && sd_view(gs[i])[s].1.contains_key(x.action));
    }
}
/// C05 "a removed (stale) id stays dead": after unregister(id) returned true, id is live in no later state, so every
/// later unregister(id) returns false and changes nothing
proof fn theorem_stale_id_stays_dead(gs: Seq<SignalData>, es: Seq<Ev>, i: int, j: int)
    requires valid(gs, es), 0 <= i < j < gs.len(), es[i] matches Ev::Unreg { ret, .. } && ret,
    ensures !live(gs[j], es[i]->Unreg_id),
        j < es.len() && (es[j] matches Ev::Unreg { id, .. } && id == es[i]->Unreg_id) ==> !es[j]->Unreg_ret && gs[j + 1] == gs[j],
    decreases j,
{
    let id = es[i]->Unreg_id;
    assert(step(gs[i], gs[i + 1], es[i]));
    lemma_hist(gs, es, i, i);
    lemma_step(gs[i], gs[i + 1], es[i]);
    assert(live(gs[i], id));
    assert(sd_view(gs[i]).contains_key(id.signal) && sd_view(gs[i])[id.signal].1.contains_key(id.action));
    assert(id.action.0 < gs[i].next_id);
    if j > i + 1 {
        theorem_stale_id_stays_dead(gs, es, i, j - 1);
        assert(step(gs[j - 1], gs[j - 1 + 1], es[j - 1]));
        lemma_hist(gs, es, i, j - 1);
        lemma_step(gs[j - 1], gs[j], es[j - 1]);
    }
    if j < es.len() {
        assert(step(gs[j], gs[j + 1], es[j]));
        lemma_hist(gs, es, j, j);
        lemma_step(gs[j], gs[j + 1], es[j]);
    }
}
/// non-vacuity: a valid history exists (the empty registry, no events)
proof fn witness_valid(g: SignalData)
    requires sd_view(g) == Map::<c_int, SlotView>::empty(),
    ensures valid(seq![g], Seq::<Ev>::empty()),
{
}
