// ---- PRELUDE A (hand-written, trusted): types the mutators only move around, and the half-lock API.
// Everything here is an ASSUMED contract (listed in the evidence under trusted_base):
//  * `Action` (really `dyn Fn(&siginfo_t) + Send + Sync`) and `Arc` are opaque: the mutators never call or
//    inspect an action, they only move the `Arc` into / out of the per-signal map (Verus has no `dyn Fn`).
//  * `HalfLock::write` / `WriteGuard::{deref, store}`: the guard dereferences to the current snapshot and
//    `store(v)` makes `v` the snapshot (ghost counter `stores()` counts publications). The real bodies are
//    proved against this contract by Kani (C01.S-ORDER / S-VIEW / S-FREE-ONCE, C01.WG-LOAD, C18.MUTEX-HELD).
//  * `HashMap::get_mut`: std contract, missing from vstd.
#[verifier::external_body] pub struct Action { _p: u8 }
#[verifier::external_body] pub struct siginfo_t { _p: u8 }
#[verifier::external_body] pub struct sigaction { _p: u8 }

#[verifier::external_body]
#[verifier::reject_recursive_types(T)]
pub struct Arc<T> { _p: core::marker::PhantomData<T> }
impl<F: Fn(&siginfo_t) + Sync + Send + 'static> From<F> for Arc<Action> {
    #[verifier::external_body]
    fn from(f: F) -> Self { unimplemented!() }
}

#[verifier::external_type_specification]
#[verifier::external_body]
pub struct ExIoError(std::io::Error);

/// ghost events whose ORDER the registration contract talks about (opaque; built by the two uninterpreted functions):
/// a publication through a WriteGuard (`store_ev(value)`) and the sigaction call of `Slot::new` (`install_ev(signal)`)
#[verifier::external_body] pub struct REv { _p: u8 }
pub uninterp spec fn store_ev<T>(v: T) -> REv;
pub uninterp spec fn install_ev(signal: c_int) -> REv;

#[verifier::external_body]
#[verifier::reject_recursive_types(T)]
pub struct HalfLock<T> { _p: core::marker::PhantomData<T> }
#[verifier::external_body]
#[verifier::reject_recursive_types(T)]
pub struct WriteGuard<'a, T: 'a> { _p: core::marker::PhantomData<&'a T> }

impl<'a, T> WriteGuard<'a, T> {
    /// the snapshot readers obtain from now on
    pub uninterp spec fn cur(&self) -> T;
    /// number of publications through this guard
    pub uninterp spec fn stores(&self) -> nat;
    #[verifier::external_body]
    pub fn store(&mut self, val: T, tr: &mut Ghost<Seq<REv>>)
        ensures final(self).cur() == val, final(self).stores() == old(self).stores() + 1,
            final(tr)@ == old(tr)@.push(store_ev(val))
    { unimplemented!() }
}
impl<'a, T> Deref for WriteGuard<'a, T> {
    type Target = T;
    #[verifier::external_body]
    fn deref(&self) -> (r: &T) ensures *r == self.cur() { unimplemented!() }
}
impl<T> HalfLock<T> {
    #[verifier::external_body]
    pub fn write(&self) -> (r: WriteGuard<'_, T>) ensures r.stores() == 0 { unimplemented!() }
}

pub assume_specification<'a, K, V, S, A, Q> [std::collections::HashMap::<K, V, S, A>::get_mut] (m: &'a mut std::collections::HashMap<K, V, S, A>, k: &Q) -> (r: std::option::Option<&'a mut V>)
    where
    A: std::alloc::Allocator,
    K: std::cmp::Eq + std::hash::Hash + std::borrow::Borrow<Q>,
    Q: std::marker::MetaSized + std::hash::Hash + std::cmp::Eq + ?Sized,
    S: std::hash::BuildHasher,
    ensures
        obeys_key_model::<K>() && builds_valid_hashers::<S>() ==> match r {
            Some(v) => contains_borrowed_key(old(m)@, k) && maps_borrowed_key_to_value(old(m)@, k, *v)
                && borrowed_key_updated(old(m)@, final(m)@, k, *final(v)),
            None => !contains_borrowed_key(old(m)@, k) && final(m)@ == old(m)@,
        },
;
pub uninterp spec fn borrowed_key_updated<K, V, Q: ?Sized>(old_m: Map<K, V>, new_m: Map<K, V>, k: &Q, v: V) -> bool;
#[verifier::external_body]
pub broadcast proof fn axiom_borrowed_key_updated<K, V>(old_m: Map<K, V>, new_m: Map<K, V>, k: &K, v: V)
    ensures #[trigger] borrowed_key_updated::<K, V, K>(old_m, new_m, k, v) == (new_m == old_m.insert(*k, v)) {}
