// ---- PRELUDE B (hand-written, trusted): contracts of the callees defined on the extracted types.
//  * derived `Clone` of SignalData (the derive lines are checked to be present in /repo, then replaced by
//    this explicit impl: Verus gives derived Clone of non-Copy types no specification): same view, same next_id.
//  * `GlobalData::ensure`: returns the global (lazy init by `Once`, not verified here).
//  * `Prev::detect` / `Slot::new`: on Ok the result is for the requested signal and a new slot has no
//    actions - proved on the real bodies by Kani (c05_slot_new: C05.FLAGS, C04.PREV-FROM-SWAP, C14.ERR-PROPAGATE).
//  * derived `Ord` on ActionId(u128) is the numeric order (vstd: key_obeys_cmp_spec).
pub type SlotView = (Prev, Map<ActionId, Arc<Action>>);
pub closed spec fn slot_view(s: Slot) -> SlotView { (s.prev, s.actions@) }
pub closed spec fn sd_view(d: SignalData) -> Map<c_int, SlotView> {
    Map::new(d.signals@.dom(), |s: c_int| slot_view(d.signals@[s]))
}
pub closed spec fn sd_next(d: SignalData) -> u128 { d.next_id }
impl Clone for SignalData {
    #[verifier::external_body]
    fn clone(&self) -> (r: Self) ensures sd_next(r) == sd_next(*self), sd_view(r) == sd_view(*self) { unimplemented!() }
}
#[verifier::external_body]
proof fn axiom_action_id_ord() ensures vstd::std_specs::btree::key_obeys_cmp_spec::<ActionId>() {}

impl GlobalData {
    #[verifier::external_body]
    fn ensure() -> &'static Self { unimplemented!() }
}
impl Prev {
    #[verifier::external_body]
    fn detect(signal: c_int) -> (r: Result<Self, Error>) ensures r.is_ok() ==> r.unwrap().signal == signal { unimplemented!() }
}
impl Slot {
    #[verifier::external_body]
    fn new(signal: c_int, tr: &mut Ghost<Seq<REv>>) -> (r: Result<Self, Error>)
        ensures final(tr)@ == old(tr)@.push(install_ev(signal)), r.is_ok() ==> r.unwrap().prev.signal == signal && r.unwrap().actions@ == Map::<ActionId, Arc<Action>>::empty()
    { unimplemented!() }
}
