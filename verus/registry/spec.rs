// ---- SPEC (hand-written): abstract view, representation invariant, and the postcondition of every mutator as a
// predicate over (snapshot at lock acquisition g0, snapshot on return g1, number of publications, arguments, result).
// The overlay asserts exactly these predicates inside the real function bodies; the lemmas at the end of the file
// are proved over the same predicates, so the link contract -> whole-history statement is machine-checked.
pub closed spec fn acts(v: Map<c_int, SlotView>, s: c_int) -> Map<ActionId, Arc<Action>> {
    if v.contains_key(s) { v[s].1 } else { Map::empty() }
}
pub closed spec fn live(d: SignalData, id: SigId) -> bool { acts(sd_view(d), id.signal).contains_key(id.action) }
/// Inv: every id in any per-signal map is below next_id
pub closed spec fn sd_inv(d: SignalData) -> bool {
    forall|s: c_int, a: ActionId| #![trigger sd_view(d)[s].1.contains_key(a)]
        sd_view(d).contains_key(s) && sd_view(d)[s].1.contains_key(a) ==> a.0 < d.next_id
}

// unregister(id)
pub closed spec fn unreg_iff_live(g0: SignalData, id: SigId, ret: bool) -> bool { ret == live(g0, id) }
pub closed spec fn publish_iff(stores: nat, ret: bool) -> bool { stores == if ret { 1nat } else { 0nat } }
pub closed spec fn unreg_view(g0: SignalData, g1: SignalData, id: SigId, ret: bool) -> bool {
    let v0 = sd_view(g0);
    ret ==> sd_view(g1) == v0.insert(id.signal, (v0[id.signal].0, v0[id.signal].1.remove(id.action)))
}
pub closed spec fn next_kept(g0: SignalData, g1: SignalData, ret: bool) -> bool { ret ==> g1.next_id == g0.next_id }
pub closed spec fn post_unregister(g0: SignalData, g1: SignalData, stores: nat, id: SigId, ret: bool) -> bool {
    unreg_iff_live(g0, id, ret) && publish_iff(stores, ret) && unreg_view(g0, g1, id, ret) && next_kept(g0, g1, ret)
}

// unregister_signal(signal)
pub closed spec fn unregsig_iff_nonempty(g0: SignalData, signal: c_int, ret: bool) -> bool {
    ret == (exists|a: ActionId| acts(sd_view(g0), signal).contains_key(a))
}
pub closed spec fn unregsig_view(g0: SignalData, g1: SignalData, signal: c_int, ret: bool) -> bool {
    let v0 = sd_view(g0);
    ret ==> sd_view(g1) == v0.insert(signal, (v0[signal].0, Map::empty()))
}
pub closed spec fn post_unregister_signal(g0: SignalData, g1: SignalData, stores: nat, signal: c_int, ret: bool) -> bool {
    unregsig_iff_nonempty(g0, signal, ret) && publish_iff(stores, ret) && unregsig_view(g0, g1, signal, ret) && next_kept(g0, g1, ret)
}

// register_unchecked_impl(signal, action) returning Ok(ret)
pub closed spec fn reg_id_fresh(g0: SignalData, g1: SignalData, signal: c_int, ret: SigId) -> bool {
    &&& ret.signal == signal
    &&& ret.action.0 == g0.next_id
    &&& g1.next_id == g0.next_id + 1
}
pub closed spec fn reg_append(g0: SignalData, g1: SignalData, signal: c_int, act: Arc<Action>, ret: SigId) -> bool {
    let v0 = sd_view(g0);
    let v1 = sd_view(g1);
    &&& v1.dom() == v0.dom().insert(signal)
    &&& (forall|s: c_int| s != signal && v0.contains_key(s) ==> v1[s] == v0[s])
    &&& v1[signal].1 == acts(v0, signal).insert(ret.action, act)
}
pub closed spec fn reg_prev(g0: SignalData, g1: SignalData, signal: c_int) -> bool {
    let v0 = sd_view(g0);
    let v1 = sd_view(g1);
    &&& v0.contains_key(signal) ==> v1[signal].0 == v0[signal].0
    &&& !v0.contains_key(signal) ==> v1[signal].0.signal == signal
}
/// the new id is greater than every id already registered for the signal (=> it runs last: BTreeMap order)
pub closed spec fn reg_id_mono(g0: SignalData, signal: c_int, ret: SigId) -> bool {
    forall|a: ActionId| acts(sd_view(g0), signal).contains_key(a) ==> a.0 < ret.action.0
}
pub closed spec fn post_register_ok(g0: SignalData, g1: SignalData, stores: nat, signal: c_int, act: Arc<Action>, ret: SigId) -> bool {
    stores == 1 && reg_id_fresh(g0, g1, signal, ret) && reg_append(g0, g1, signal, act, ret) && reg_prev(g0, g1, signal)
}
